(** Refinement of the iterator model (Model/Iterator.v) to the cursor
    specification (Spec/Cursor.v), for every operation history, every
    stop_hint, every choice of the distance heuristics and block cutter. *)
From Coq Require Import NArith List Bool Lia Sorted Arith.
From PS Require Import Spec.Primes Spec.Cursor Model.Pmath Model.Iterator Proofs.PmathP.
Import ListNotations.
Local Open Scope N_scope.

(* ---------- list helpers ---------- *)

Lemma nth_last {A} (l : list A) d : l <> [] -> nth (pred (length l)) l d = last l d.
Proof.
  induction l as [|x l IH]; [congruence|]. intros _. destruct l as [|y l]; [reflexivity|].
  change (nth (pred (length (x :: y :: l))) (x :: y :: l) d) with (nth (pred (length (y :: l))) (y :: l) d).
  rewrite IH by discriminate. reflexivity.
Qed.

Lemma split_last {A} (l : list A) d : l <> [] -> l = removelast l ++ [last l d].
Proof. intros H. apply app_removelast_last. exact H. Qed.

Lemma nth_split2 {A} (l : list A) (i : nat) d :
  (S i < length l)%nat -> exists l1 l2, l = l1 ++ nth i l d :: nth (S i) l d :: l2.
Proof.
  revert i. induction l as [|x l IH]; intros i H; [cbn in H; lia|].
  destruct i as [|i].
  - destruct l as [|y l]; [cbn in H; lia|]. exists [], l. reflexivity.
  - cbn [length] in H. destruct (IH i ltac:(lia)) as (l1 & l2 & E).
    exists (x :: l1), l2. cbn [nth app]. rewrite <- E. reflexivity.
Qed.

Lemma hd_nth0 {A} (l : list A) d : hd d l = nth 0 l d.
Proof. destruct l; reflexivity. Qed.

Lemma hd_app_ne {A} (l l' : list A) d : l <> [] -> hd d (l ++ l') = hd d l.
Proof. destruct l; [congruence|reflexivity]. Qed.

Lemma last_app_ne {A} (l l' : list A) d : l' <> [] -> last (l ++ l') d = last l' d.
Proof.
  intros H. induction l as [|x l IH]; [reflexivity|]. cbn [app].
  remember (l ++ l') as m eqn:Em. destruct m as [|a m].
  - symmetry in Em. apply app_eq_nil in Em. destruct Em; congruence.
  - exact IH.
Qed.

(* ---------- adjacency of buffer entries ---------- *)

Definition sentinel (s : N) : list N := if s <=? 2 then [0] else [].

(** p directly precedes q in the sequence 0 :: primes *)
Definition adj (p q : N) : Prop :=
  is_next_prime (p + 1) q /\
  (lt_prev_prime q p \/ (p = 0 /\ forall r, prime r -> r < q -> False)).

Lemma is_prev_to_lt hi p : is_prev_prime hi p -> lt_prev_prime (hi + 1) p.
Proof. intros (H1 & H2 & H3). split; [exact H1|]. split; [lia|]. intros q Hq Hlt. apply H3; [exact Hq|lia]. Qed.

Lemma adj_of_primes a b l1 p q l2 : primes_between a b = l1 ++ p :: q :: l2 -> adj p q.
Proof.
  intros E. destruct (primes_between_adjacent _ _ _ _ _ _ E) as [Hn Hp]. split; [exact Hn|left].
  destruct Hn as (Hq & Hle & _). apply is_prev_to_lt in Hp. replace (q - 1 + 1) with q in Hp by lia. exact Hp.
Qed.

Lemma adj_sentinel s b q l : s <= 2 -> primes_between s b = q :: l -> adj 0 q.
Proof.
  intros Hs E. apply primes_between_head in E. destruct E as [(Hq & Hle & Hmin) _].
  split.
  - split; [exact Hq|]. pose proof (prime_ge_2 _ Hq). split; [lia|].
    intros r Hr _. apply Hmin; [exact Hr|]. pose proof (prime_ge_2 _ Hr). lia.
  - right. split; [reflexivity|]. intros r Hr Hlt. pose proof (prime_ge_2 _ Hr).
    specialize (Hmin r Hr ltac:(lia)). lia.
Qed.

Lemma adj_backward s b l1 p q l2 :
  sentinel s ++ primes_between s b = l1 ++ p :: q :: l2 -> adj p q.
Proof.
  unfold sentinel. destruct (N.leb_spec s 2) as [Hs|Hs]; cbn [app].
  - destruct l1 as [|x l1]; cbn [app]; intros E.
    + injection E as <- E. eapply adj_sentinel; eassumption.
    + injection E as _ E. eapply adj_of_primes; eassumption.
  - apply adj_of_primes.
Qed.

(* ---------- the refinement ---------- *)

Definition op_ok (o : op) : Prop :=
  match o with
  | JumpTo s h | Skipto s h => s <= MAX64
  | _ => True
  end.

Definition cur_val (it : iter) : N := nth (it_i it) (it_buf it) 0.

Definition nonempty (b : list N) : Prop := b <> [].

(** the representation invariant and abstraction relation *)
Definition R (it : iter) (c : cursor) : Prop :=
  match it_buf it with
  | [] => it_i it = 0%nat /\ it_start it <= MAX64 /\
          match it_mem it with
          | None => c = (it_start it, it_start it + 1)
          | Some d => d_gen d = None /\ d_stop d = it_start it /\
                      c = if d_incl d then (it_start it, it_start it + 1)
                          else (it_start it + 1, it_start it)
          end
  | _ :: _ =>
      (it_i it < length (it_buf it))%nat /\ c = (cur_val it + 1, cur_val it) /\
      exists d, it_mem it = Some d /\ d_incl d = false /\ d_stop d <= MAX64 /\
        match d_gen d with
        | Some g => Forall nonempty (g_blocks g) /\ g_top g = (MAX64 <=? d_stop d) /\
                    exists a done, primes_between a (d_stop d) = done ++ it_buf it ++ concat (g_blocks g)
        | None => it_start it <= MAX64 /\
                  it_buf it = sentinel (it_start it) ++ primes_between (it_start it) (d_stop d)
        end
  end.

Section Refinement.
  Variable nextDist : N -> N -> N.
  Variable prevDist : N -> N -> N.
  Variable maxGap : N -> N.
  Variable kernel : N -> N -> list N.
  Variable cut : list N -> list (list N).

  (** the statement of the kernel theorem (L2-L6) *)
  Hypothesis kernel_ok : forall a b, a <= b -> b <= MAX64 -> kernel a b = primes_between a b.
  Hypothesis cut_ok : forall l, concat (cut l) = l /\ Forall nonempty (cut l).

  Notation gen_next_loop := (gen_next_loop nextDist maxGap kernel cut).
  Notation gen_prev_loop := (gen_prev_loop prevDist maxGap kernel).
  Notation generate_next_primes := (generate_next_primes nextDist maxGap kernel cut).
  Notation generate_prev_primes := (generate_prev_primes prevDist maxGap kernel).
  Notation step := (step nextDist prevDist maxGap kernel cut).
  Notation run := (run nextDist prevDist maxGap kernel cut).

  Lemma cut_nil l : cut l = [] -> l = [].
  Proof. intros H. destruct (cut_ok l) as [Hc _]. rewrite H in Hc. cbn in Hc. congruence. Qed.

  (** what a forward generator state (buffer b, data d) must satisfy *)
  Definition fwd_ok (b : list N) (d : idata) : Prop :=
    b <> [] /\ d_incl d = false /\ d_stop d <= MAX64 /\
    exists g, d_gen d = Some g /\ Forall nonempty (g_blocks g) /\ g_top g = (MAX64 <=? d_stop d) /\
      exists a done, primes_between a (d_stop d) = done ++ b ++ concat (g_blocks g).

  Lemma updateNext_bounds hint d :
    d_stop d <= MAX64 ->
    let '(s, stop, dist) := updateNext nextDist maxGap hint d in
    s <= stop /\ stop <= MAX64 /\
    s = N.min (if d_incl d then d_stop d else d_stop d + 1) MAX64.
  Proof.
    intros Hd. unfold updateNext. cbn zeta.
    set (s := if d_incl d then d_stop d else checkedAdd (d_stop d) 1).
    assert (Hs : s = N.min (if d_incl d then d_stop d else d_stop d + 1) MAX64).
    { subst s. destruct (d_incl d); [lia|]. rewrite checkedAdd_min by assumption. reflexivity. }
    assert (Hs' : s <= MAX64) by lia.
    split; [|split; [|exact Hs]].
    - destruct ((s <=? hint) && (hint <? MAX64)) eqn:E.
      + apply andb_true_iff in E. destruct E as [H1 H2].
        apply N.leb_le in H1. pose proof (checkedAdd_ge hint (maxGap hint)). apply N.ltb_lt in H2. lia.
      + apply checkedAdd_ge. exact Hs'.
    - destruct ((s <=? hint) && (hint <? MAX64)); apply checkedAdd_le.
  Qed.

  Lemma next_prime_shift lo m p :
    lo <= m + 1 -> no_prime_in lo m -> is_next_prime (m + 1) p -> is_next_prime lo p.
  Proof.
    intros Hle Hno (Hp & Hge & Hmin). split; [exact Hp|]. split; [lia|].
    intros q Hq Hlo. destruct (N.le_gt_cases q m) as [Hqm|Hqm].
    - exfalso. exact (Hno q Hq Hlo Hqm).
    - apply Hmin; [exact Hq|lia].
  Qed.

  Lemma gen_next_loop_spec fuel : forall start hint d,
    d_gen d = None -> d_stop d <= MAX64 ->
    let lo := if d_incl d then d_stop d else d_stop d + 1 in
    match gen_next_loop fuel start hint d with
    | Done (start', b, d') => fwd_ok b d' /\ is_next_prime lo (hd 0 b) /\ start' <= MAX64
    | Thrown _ => forall p, prime p -> lo <= p -> U64 <= p
    | OutOfFuel => True
    end.
  Proof.
    induction fuel as [|fuel IH]; intros start hint d Hgen Hstop lo; [exact I|].
    cbn [Iterator.gen_next_loop]. rewrite Hgen.
    pose proof (updateNext_bounds hint d Hstop) as HB.
    destruct (updateNext nextDist maxGap hint d) as [[s stop] dist] eqn:EU.
    destruct HB as (Hs1 & Hs2 & Hs3). fold lo in Hs3.
    cbn [new_gen g_blocks g_top d_stop d_dist d_incl d_gen].
    rewrite (kernel_ok s stop) by lia.
    destruct (cut_ok (primes_between s stop)) as [Hcat Hne].
    destruct (cut (primes_between s stop)) as [|b rest] eqn:EC.
    - cbn in Hcat. symmetry in Hcat. apply primes_between_nil_iff in Hcat.
      destruct (N.leb_spec MAX64 stop) as [Htop|Htop].
      + intros p Hp Hlo. destruct (N.le_gt_cases U64 p) as [|Hlt]; [assumption|exfalso].
        apply (Hcat p Hp); u64; lia.
      + specialize (IH s hint {| d_stop := stop; d_dist := dist; d_incl := false; d_gen := None |} eq_refl ltac:(cbn; lia)).
        cbn [d_incl d_stop] in IH.
        destruct (Iterator.gen_next_loop nextDist maxGap kernel cut fuel s hint _) as [[[s' b'] d']|x|]; [| |exact I].
        * destruct IH as (I1 & I2 & I3). split; [exact I1|]. split; [|exact I3].
          apply (next_prime_shift lo stop); [lia| |exact I2].
          intros q Hq H1 H2. apply (Hcat q Hq); lia.
        * intros p Hp Hlo. destruct (N.le_gt_cases p stop) as [Hps|Hps].
          { exfalso. apply (Hcat p Hp); lia. }
          apply IH; [exact Hp|lia].
    - cbn [concat] in Hcat. apply Forall_cons_iff in Hne. destruct Hne as [Hb Hrest].
      split; [|split; [|lia]].
      + split; [exact Hb|]. split; [reflexivity|]. split; [cbn; exact Hs2|].
        eexists. split; [reflexivity|]. cbn [g_blocks g_top d_stop]. split; [exact Hrest|]. split; [reflexivity|].
        exists s, []. cbn [app]. symmetry. exact Hcat.
      + destruct b as [|x b']; [exfalso; apply Hb; reflexivity|]. cbn [hd].
        cbn [app] in Hcat. symmetry in Hcat. apply primes_between_head in Hcat. destruct Hcat as [Hnx Hxs].
        destruct (N.le_gt_cases lo MAX64) as [Hlo|Hlo].
        * replace lo with s by lia. exact Hnx.
        * exfalso. destruct Hnx as (Hx & Hsx & _). assert (x = MAX64) by lia. subst x.
          exact (not_prime_MAX64 Hx).
  Qed.

  Lemma updatePrev_bounds start hint d :
    start <= MAX64 ->
    let '(s, stop, dist) := updatePrev prevDist maxGap start hint d in
    s <= stop /\ stop <= MAX64 /\ stop = (if d_incl d then start else start - 1).
  Proof.
    intros Hs. unfold updatePrev. cbn zeta. rewrite !checkedSub_sub.
    set (stop := if d_incl d then start else start - 1).
    assert (stop <= MAX64) by (subst stop; destruct (d_incl d); lia).
    split; [|split; [assumption|reflexivity]].
    destruct ((stop - prevDist stop (d_dist d) <=? hint) && (hint <=? stop)) eqn:E; [|lia].
    apply andb_true_iff in E. destruct E as [_ E]. apply N.leb_le in E. lia.
  Qed.

  Definition bwd_ok (s : N) (b : list N) (d : idata) : Prop :=
    b <> [] /\ d_incl d = false /\ d_gen d = None /\ d_stop d <= MAX64 /\ s <= MAX64 /\
    b = sentinel s ++ primes_between s (d_stop d).

  Definition prev_result (hi1 v : N) : Prop :=
    lt_prev_prime hi1 v \/ (v = 0 /\ forall r, prime r -> r < hi1 -> False).

  Lemma gen_prev_loop_spec fuel : forall start hint d,
    start <= MAX64 ->
    let hi1 := if d_incl d then start + 1 else start in
    match gen_prev_loop fuel start hint d with
    | Done (s, b, d') => bwd_ok s b d' /\ prev_result hi1 (last b 0)
    | Thrown _ => False
    | OutOfFuel => True
    end.
  Proof.
    induction fuel as [|fuel IH]; intros start hint d Hstart hi1; [exact I|].
    cbn [Iterator.gen_prev_loop].
    pose proof (updatePrev_bounds start hint d Hstart) as HB.
    destruct (updatePrev prevDist maxGap start hint d) as [[s stop] dist] eqn:EU.
    destruct HB as (Hs1 & Hs2 & Hs3).
    assert (Hhi : forall r, r < hi1 -> r <= stop) by (intros r; subst hi1 stop; destruct (d_incl d); lia).
    unfold prev_block. fold (sentinel s). rewrite (kernel_ok s stop) by lia.
    destruct (sentinel s ++ primes_between s stop) as [|x b] eqn:EB.
    - apply app_eq_nil in EB. destruct EB as [Esent EP]. apply primes_between_nil_iff in EP.
      assert (Hs2' : 2 < s) by (unfold sentinel in Esent; destruct (N.leb_spec s 2); [discriminate|assumption]).
      specialize (IH s hint {| d_stop := stop; d_dist := dist; d_incl := false; d_gen := None |} ltac:(lia)).
      cbn [d_incl] in IH.
      destruct (Iterator.gen_prev_loop prevDist maxGap kernel fuel s hint _) as [[[s' b'] d']|x|]; [|exact IH|exact I].
      destruct IH as [I1 I2]. split; [exact I1|].
      assert (Hset : forall r, prime r -> r < hi1 -> r < s).
      { intros r Hr Hlt. destruct (N.lt_ge_cases r s) as [|Hge]; [assumption|exfalso].
        apply (EP r Hr Hge). apply Hhi. exact Hlt. }
      assert (Hshi : s <= hi1) by (subst hi1 stop; destruct (d_incl d); lia).
      destruct I2 as [(Hp & Hlt & Hmax)|[Hz Hnone]].
      + left. split; [exact Hp|]. split; [lia|]. intros q Hq Hq1. apply Hmax; [exact Hq|]. apply Hset; assumption.
      + right. split; [exact Hz|]. intros r Hr Hlt. apply (Hnone r Hr). apply Hset; assumption.
    - rewrite <- EB. split.
      + repeat split; try reflexivity; cbn [d_stop]; try lia. rewrite EB. discriminate.
      + destruct (primes_between s stop) as [|y P] eqn:EP.
        * right. rewrite app_nil_r in *. unfold sentinel in *. destruct (N.leb_spec s 2) as [Hs|Hs]; [|discriminate].
          split; [reflexivity|]. intros r Hr Hlt. pose proof (prime_ge_2 _ Hr).
          apply primes_between_nil_iff in EP. apply (EP r Hr); [lia|]. apply Hhi. exact Hlt.
        * left. rewrite last_app_ne by discriminate.
          pose proof (split_last (y :: P) 0 ltac:(discriminate)) as Hsp. rewrite Hsp in EP.
          apply primes_between_last in EP. destruct EP as [Hprev Hge].
          apply is_prev_to_lt in Hprev. replace hi1 with (stop + 1); [exact Hprev|].
          destruct Hprev as (Hp & Hlt & _). pose proof (prime_ge_2 _ Hp).
          subst hi1. clear Hhi. destruct (d_incl d); lia.
  Qed.

  (* ---------- facts about the buffer under R ---------- *)

  Lemma R_buf_adj it c l1 p q l2 : R it c -> it_buf it = l1 ++ p :: q :: l2 -> adj p q.
  Proof.
    unfold R. intros HR E. destruct (it_buf it) as [|x0 buf0] eqn:EB.
    { destruct l1; discriminate. }
    destruct HR as (_ & _ & d & _ & _ & _ & HG). destruct (d_gen d) as [g|].
    - destruct HG as (_ & _ & a & done & HP). rewrite E in HP.
      rewrite <- app_assoc in HP. cbn [app] in HP. rewrite app_assoc in HP.
      eapply adj_of_primes. exact HP.
    - destruct HG as (_ & HB). rewrite E in HB. eapply adj_backward. symmetry. exact HB.
  Qed.

  Lemma R_buf_le it c x : R it c -> In x (it_buf it) -> x <= MAX64.
  Proof.
    unfold R. intros HR Hin. destruct (it_buf it) as [|x0 buf0] eqn:EB; [destruct Hin|].
    destruct HR as (_ & _ & d & _ & _ & Hst & HG). destruct (d_gen d) as [g|].
    - destruct HG as (_ & _ & a & done & HP).
      assert (In x (primes_between a (d_stop d))).
      { rewrite HP. apply in_or_app. right. apply in_or_app. left. exact Hin. }
      apply In_primes_between in H. lia.
    - destruct HG as (_ & HB). rewrite HB in Hin. apply in_app_or in Hin. destruct Hin as [Hin|Hin].
      + unfold sentinel in Hin. destruct (it_start it <=? 2); [|destruct Hin]. destruct Hin as [<-|[]]. u64. lia.
      + apply In_primes_between in Hin. lia.
  Qed.

  (** at the upper end of the buffer: no prime between the last entry and the chunk's stop *)
  Lemma R_last_gap it c d :
    R it c -> it_buf it <> [] -> it_mem it = Some d ->
    match d_gen d with Some g => g_blocks g = [] | None => True end ->
    no_prime_in (last (it_buf it) 0 + 1) (d_stop d).
  Proof.
    unfold R. intros HR Hne Hmem Hg. destruct (it_buf it) as [|x0 buf0] eqn:EB; [congruence|].
    destruct HR as (_ & _ & d' & Hmem' & _ & Hst & HG). rewrite Hmem in Hmem'. injection Hmem' as <-.
    set (buf := x0 :: buf0) in *. pose proof (split_last buf 0 ltac:(discriminate)) as Hsp.
    destruct (d_gen d) as [g|].
    - destruct HG as (_ & _ & a & done & HP). rewrite Hg in HP. cbn [concat] in HP. rewrite app_nil_r in HP.
      rewrite Hsp, app_assoc in HP. apply primes_between_last in HP. destruct HP as [(_ & _ & Hmax) _].
      intros q Hq H1 H2. specialize (Hmax q Hq H2). lia.
    - destruct HG as (Hs & HB). destruct (primes_between (it_start it) (d_stop d)) as [|y P] eqn:EP.
      + rewrite app_nil_r in HB. unfold sentinel in HB. destruct (N.leb_spec (it_start it) 2) as [Hs2|Hs2]; [|discriminate].
        rewrite HB. cbn [last]. apply primes_between_nil_iff in EP.
        intros q Hq H1 H2. pose proof (prime_ge_2 _ Hq). apply (EP q Hq); lia.
      + rewrite HB, last_app_ne by discriminate.
        pose proof (split_last (y :: P) 0 ltac:(discriminate)) as Hsp2. rewrite Hsp2 in EP.
        apply primes_between_last in EP. destruct EP as [(_ & _ & Hmax) _].
        intros q Hq H1 H2. specialize (Hmax q Hq H2). lia.
  Qed.

  (** at the lower end of a backward buffer: the primes below the first entry are those below start *)
  Lemma R_first_bwd it c d x :
    R it c -> it_buf it <> [] -> it_mem it = Some d -> d_gen d = None ->
    prev_result (it_start it) x -> prev_result (hd 0 (it_buf it)) x.
  Proof.
    unfold R. intros HR Hne Hmem Hg Hx. destruct (it_buf it) as [|x0 buf0] eqn:EB; [congruence|].
    destruct HR as (_ & _ & d' & Hmem' & _ & Hst & HG). rewrite Hmem in Hmem'. injection Hmem' as <-.
    rewrite Hg in HG. destruct HG as (Hs & HB). cbn [hd].
    unfold sentinel in HB. destruct (N.leb_spec (it_start it) 2) as [Hs2|Hs2]; cbn [app] in HB.
    - injection HB as -> _. right. destruct Hx as [(Hp & Hlt & _)|[Hz Hnone]].
      + pose proof (prime_ge_2 _ Hp). lia.
      + split; [exact Hz|]. intros r _ Hr. lia.
    - symmetry in HB. apply primes_between_head in HB. destruct HB as [(Hp0 & Hge0 & Hmin0) _].
      assert (Hset : forall r, prime r -> r < x0 -> r < it_start it).
      { intros r Hr Hlt. destruct (N.lt_ge_cases r (it_start it)) as [|Hge]; [assumption|].
        specialize (Hmin0 r Hr Hge). lia. }
      destruct Hx as [(Hp & Hlt & Hmax)|[Hz Hnone]].
      + left. split; [exact Hp|]. split; [lia|]. intros q Hq Hq1. apply Hmax; [exact Hq|]. apply Hset; assumption.
      + right. split; [exact Hz|]. intros r Hr Hlt. apply (Hnone r Hr). apply Hset; assumption.
  Qed.

  Lemma R_cur_last it c :
    R it c -> it_buf it <> [] -> ~ (S (it_i it) < length (it_buf it))%nat ->
    cur_val it = last (it_buf it) 0 /\ c = (last (it_buf it) 0 + 1, last (it_buf it) 0).
  Proof.
    unfold R, cur_val. intros HR Hne Hi. destruct (it_buf it) as [|x0 buf0] eqn:EB; [congruence|].
    destruct HR as (Hlt & Hc & _).
    assert (Hi' : it_i it = pred (length (x0 :: buf0))) by lia.
    rewrite Hi' in *. rewrite nth_last in * by discriminate. split; [reflexivity|exact Hc].
  Qed.

  Lemma R_buf_le_stop it c d x : R it c -> it_mem it = Some d -> In x (it_buf it) -> x <= d_stop d.
  Proof.
    unfold R. intros HR Hmem Hin. destruct (it_buf it) as [|x0 buf0] eqn:EB; [destruct Hin|].
    destruct HR as (_ & _ & d' & Hmem' & _ & Hst & HG). rewrite Hmem in Hmem'. injection Hmem' as <-.
    destruct (d_gen d) as [g|].
    - destruct HG as (_ & _ & a & done & HP).
      assert (In x (primes_between a (d_stop d))).
      { rewrite HP. apply in_or_app. right. apply in_or_app. left. exact Hin. }
      apply In_primes_between in H. lia.
    - destruct HG as (_ & HB). rewrite HB in Hin. apply in_app_or in Hin. destruct Hin as [Hin|Hin].
      + unfold sentinel in Hin. destruct (it_start it <=? 2); [|destruct Hin]. destruct Hin as [<-|[]]. lia.
      + apply In_primes_between in Hin. lia.
  Qed.

  Lemma In_last (l : list N) : l <> [] -> In (last l 0) l.
  Proof.
    intros H. rewrite (split_last l 0 H) at 2. apply in_or_app. right. left. reflexivity.
  Qed.

  Lemma R_of_fwd start hint b d' :
    fwd_ok b d' ->
    R {| it_i := 0; it_start := start; it_hint := hint; it_buf := b; it_mem := Some d' |} (hd 0 b + 1, hd 0 b).
  Proof.
    intros (Hb & Hincl & Hst & g & Hg & Hne & Htop & a & done & HP).
    destruct b as [|x b']; [congruence|]. unfold R, cur_val. cbn [it_buf it_i it_mem nth hd length].
    split; [lia|]. split; [reflexivity|]. exists d'. split; [reflexivity|]. split; [exact Hincl|]. split; [exact Hst|].
    rewrite Hg. split; [exact Hne|]. split; [exact Htop|]. exists a, done. exact HP.
  Qed.

  Lemma R_rollback_some it v : v <= MAX64 -> R (rollback it (Some v)) (v + 1, v).
  Proof.
    intros Hv. unfold R, rollback. cbn [it_buf it_i it_start it_mem d_gen d_stop d_incl].
    repeat split; try reflexivity; exact Hv.
  Qed.

  Lemma R_rollback_none it c : R it c -> it_buf it = [] -> R (rollback it None) c.
  Proof.
    unfold R, rollback, get_data. intros HR EB. rewrite EB in HR. destruct HR as (Hi & Hs & HM).
    cbn [it_buf it_i it_start it_mem]. split; [reflexivity|]. split; [exact Hs|].
    destruct (it_mem it) as [d|]; cbn [d_gen d_stop d_incl].
    - destruct HM as (Hg & Hst & Hc). split; [reflexivity|]. split; [exact Hst|]. exact Hc.
    - split; [reflexivity|]. split; [reflexivity|]. exact HM.
  Qed.

  (** forward refill after the current chunk has been used up *)
  Lemma next_after_gap fuel it c d start hint dN :
    R it c -> it_buf it <> [] -> it_mem it = Some d ->
    match d_gen d with Some g => g_blocks g = [] | None => True end ->
    d_gen dN = None -> d_stop dN = d_stop d -> d_incl dN = false ->
    let v := last (it_buf it) 0 in
    match gen_next_loop fuel start hint dN with
    | Done (s', b, d') => fwd_ok b d' /\ is_next_prime (v + 1) (hd 0 b)
    | Thrown _ => forall p, prime p -> v + 1 <= p -> U64 <= p
    | OutOfFuel => True
    end.
  Proof.
    intros HR Hne Hmem Hex HgN HsN HiN v.
    pose proof (R_last_gap it c d HR Hne Hmem Hex) as Hgap. fold v in Hgap.
    assert (Hv : v <= d_stop d) by (apply (R_buf_le_stop it c d v HR Hmem), In_last, Hne).
    assert (Hst : d_stop d <= MAX64).
    { unfold R in HR. destruct (it_buf it); [congruence|]. destruct HR as (_ & _ & d' & Hm & _ & Hst & _). congruence. }
    pose proof (gen_next_loop_spec fuel start hint dN HgN ltac:(lia)) as HL. cbn zeta in HL.
    rewrite HiN, HsN in HL.
    destruct (Iterator.gen_next_loop nextDist maxGap kernel cut fuel start hint dN) as [[[s' b] d']|x|]; [| |exact I].
    - destruct HL as (H1 & H2 & _). split; [exact H1|]. apply (next_prime_shift (v + 1) (d_stop d)); [lia|exact Hgap|exact H2].
    - intros p Hp Hlo. destruct (N.le_gt_cases p (d_stop d)) as [Hle|Hgt].
      + exfalso. exact (Hgap p Hp Hlo Hle).
      + apply HL; [exact Hp|lia].
  Qed.

  Lemma R_lo_fresh it c :
    R it c -> it_buf it = [] ->
    d_gen (get_data it) = None /\ d_stop (get_data it) = it_start it /\ it_start it <= MAX64 /\
    c = (if d_incl (get_data it) then (it_start it, it_start it + 1) else (it_start it + 1, it_start it)).
  Proof.
    unfold R, get_data. intros HR EB. rewrite EB in HR. destruct HR as (_ & Hs & HM).
    destruct (it_mem it) as [d|]; cbn [d_gen d_stop d_incl].
    - destruct HM as (Hg & Hst & Hc). repeat split; assumption.
    - repeat split; try assumption; reflexivity.
  Qed.

  Lemma generate_next_spec fuel it c :
    R it c -> ~ (S (it_i it) < length (it_buf it))%nat ->
    match generate_next_primes fuel it with
    | Done it' => let p := nth 0 (it_buf it') 0 in
                  is_next_prime (fst c) p /\ p <= MAX64 /\ R it' (p + 1, p)
    | Thrown it' => (forall p, prime p -> fst c <= p -> U64 <= p) /\ R it' c
    | OutOfFuel => True
    end.
  Proof.
    intros HR Hi. unfold Iterator.generate_next_primes.
    destruct (it_buf it) as [|x0 buf0] eqn:EB.
    - (* fresh position *)
      destruct (R_lo_fresh it c HR EB) as (Hg & Hst & Hs & Hc).
      pose proof (gen_next_loop_spec fuel (it_start it) (it_hint it) (get_data it) Hg ltac:(lia)) as HL.
      cbn zeta in HL. rewrite Hst in HL.
      assert (Hlo : fst c = if d_incl (get_data it) then it_start it else it_start it + 1)
        by (rewrite Hc; destruct (d_incl (get_data it)); reflexivity).
      rewrite <- Hlo in HL.
      destruct (Iterator.gen_next_loop nextDist maxGap kernel cut fuel (it_start it) (it_hint it) (get_data it))
        as [[[s' b] d']|x|]; [| |exact I].
      + destruct HL as (Hf & Hn & Hs'). cbn [it_buf]. rewrite <- hd_nth0.
        split; [exact Hn|]. split.
        * destruct Hf as (Hb & _ & Hst' & g & _ & _ & _ & a & done & HP).
          destruct b as [|y b']; [congruence|]. cbn [hd].
          assert (In y (primes_between a (d_stop d'))) by (rewrite HP; apply in_or_app; right; left; reflexivity).
          apply In_primes_between in H. lia.
        * apply R_of_fwd. exact Hf.
      + cbn [last_opt]. split; [exact HL|]. apply R_rollback_none; assumption.
    - (* the buffer is used up *)
      assert (Hne : it_buf it <> []) by (rewrite EB; discriminate).
      rewrite <- EB in Hi.
      destruct (R_cur_last it c HR Hne Hi) as [_ Hc].
      set (v := last (it_buf it) 0) in *.
      assert (HvM : v <= MAX64) by (apply (R_buf_le it c v HR), In_last, Hne).
      assert (HM : exists d, it_mem it = Some d).
      { unfold R in HR. rewrite EB in HR. destruct HR as (_ & _ & d & Hm & _). exists d. exact Hm. }
      destruct HM as [d Hmem]. unfold get_data. rewrite Hmem.
      assert (Hlast : last_opt (x0 :: buf0) = Some v) by (subst v; rewrite EB; reflexivity).
      rewrite Hlast. rewrite Hc. cbn [fst].
      destruct (d_gen d) as [g|] eqn:Eg.
      + (* forward mode *)
        destruct fuel as [|fuel]; [exact I|]. cbn [Iterator.gen_next_loop]. rewrite Eg.
        destruct (g_blocks g) as [|b rest] eqn:Egb.
        * destruct (g_top g) eqn:Etop.
          -- (* the chunk ends at 2^64-1: throw *)
             split; [|apply R_rollback_some; exact HvM].
             pose proof (R_last_gap it c d HR Hne Hmem) as Hgap. rewrite Eg, Egb in Hgap. specialize (Hgap eq_refl).
             fold v in Hgap.
             assert (Hstop : d_stop d = MAX64).
             { unfold R in HR. rewrite EB in HR. destruct HR as (_ & _ & d' & Hm & _ & Hst & HG).
               rewrite Hmem in Hm. injection Hm as <-. rewrite Eg in HG. destruct HG as (_ & Ht & _).
               rewrite Etop in Ht. symmetry in Ht. apply N.leb_le in Ht. lia. }
             intros p Hp Hlo. destruct (N.le_gt_cases U64 p) as [|Hlt]; [assumption|exfalso].
             apply (Hgap p Hp Hlo). rewrite Hstop. u64. lia.
          -- pose proof (next_after_gap fuel it c d (it_start it) (it_hint it)
                 {| d_stop := d_stop d; d_dist := d_dist d; d_incl := d_incl d; d_gen := None |} HR Hne Hmem) as HN.
             rewrite Eg, Egb in HN. specialize (HN eq_refl eq_refl eq_refl).
             assert (Hincl : d_incl d = false).
             { unfold R in HR. rewrite EB in HR. destruct HR as (_ & _ & d' & Hm & Hi' & _). congruence. }
             specialize (HN Hincl). cbn zeta in HN. fold v in HN.
             destruct (Iterator.gen_next_loop nextDist maxGap kernel cut fuel (it_start it) (it_hint it) _)
               as [[[s' b] d']|x|]; [| |exact I].
             ++ destruct HN as (Hf & Hn). cbn [it_buf]. rewrite <- hd_nth0. split; [exact Hn|]. split.
                ** destruct Hf as (Hb & _ & Hst' & g' & _ & _ & _ & a & done & HP).
                   destruct b as [|y b']; [congruence|]. cbn [hd].
                   assert (In y (primes_between a (d_stop d'))) by (rewrite HP; apply in_or_app; right; left; reflexivity).
                   apply In_primes_between in H. lia.
                ** apply R_of_fwd. exact Hf.
             ++ split; [exact HN|apply R_rollback_some; exact HvM].
        * (* next block of the same generator *)
          cbn [it_buf nth].
          unfold R in HR. rewrite EB in HR. destruct HR as (_ & _ & d' & Hm & Hincl & Hst & HG).
          rewrite Hmem in Hm. injection Hm as <-. rewrite Eg in HG. destruct HG as (Hne' & Ht & a & done & HP).
          rewrite Egb in Hne', HP. apply Forall_cons_iff in Hne'. destruct Hne' as [Hb Hrest].
          destruct b as [|q b']; [exfalso; apply Hb; reflexivity|]. cbn [nth].
          assert (Hadj : adj v q).
          { rewrite <- EB in HP. rewrite (split_last (it_buf it) 0 Hne) in HP. fold v in HP.
            cbn [concat] in HP. rewrite <- !app_assoc in HP. cbn [app] in HP. rewrite app_assoc in HP.
            eapply adj_of_primes. exact HP. }
          split; [exact (proj1 Hadj)|].
          assert (Hq : In q (primes_between a (d_stop d))).
          { rewrite HP. apply in_or_app. right. apply in_or_app. right. cbn [concat]. left. reflexivity. }
          apply In_primes_between in Hq. split; [lia|].
          change (q + 1, q) with (hd 0 (q :: b') + 1, hd 0 (q :: b')). apply R_of_fwd.
          split; [discriminate|]. split; [exact Hincl|]. split; [exact Hst|].
          eexists. split; [reflexivity|]. cbn [g_blocks g_top]. split; [exact Hrest|]. split; [exact Ht|].
          exists a, (done ++ x0 :: buf0). cbn [d_stop]. rewrite HP. cbn [concat]. rewrite <- !app_assoc. reflexivity.
      + (* backward mode: continue above the chunk *)
        pose proof (next_after_gap fuel it c d (it_start it) (it_hint it) d HR Hne Hmem) as HN.
        rewrite Eg in HN. specialize (HN I eq_refl eq_refl).
        assert (Hincl : d_incl d = false).
        { unfold R in HR. rewrite EB in HR. destruct HR as (_ & _ & d' & Hm & Hi' & _). congruence. }
        specialize (HN Hincl). cbn zeta in HN. fold v in HN.
        destruct (Iterator.gen_next_loop nextDist maxGap kernel cut fuel (it_start it) (it_hint it) d)
          as [[[s' b] d']|x|]; [| |exact I].
        * destruct HN as (Hf & Hn). cbn [it_buf]. rewrite <- hd_nth0. split; [exact Hn|]. split.
          -- destruct Hf as (Hb & _ & Hst' & g' & _ & _ & _ & a & done & HP).
             destruct b as [|y b']; [congruence|]. cbn [hd].
             assert (In y (primes_between a (d_stop d'))) by (rewrite HP; apply in_or_app; right; left; reflexivity).
             apply In_primes_between in H. lia.
          -- apply R_of_fwd. exact Hf.
        * split; [exact HN|apply R_rollback_some; exact HvM].
  Qed.

  Lemma R_of_bwd s hint b d' :
    bwd_ok s b d' ->
    R (with_i {| it_i := length b; it_start := s; it_hint := hint; it_buf := b; it_mem := Some d' |} (pred (length b)))
      (last b 0 + 1, last b 0).
  Proof.
    intros (Hb & Hincl & Hg & Hst & Hs & HB).
    destruct b as [|x b']; [congruence|]. unfold R, with_i, cur_val. cbn [it_buf it_i it_mem it_start].
    split; [cbn [length]; lia|]. rewrite nth_last by discriminate. split; [reflexivity|].
    exists d'. split; [reflexivity|]. split; [exact Hincl|]. split; [exact Hst|]. rewrite Hg.
    split; [exact Hs|exact HB].
  Qed.

  Lemma generate_prev_spec fuel it c :
    R it c -> it_i it = 0%nat ->
    match generate_prev_primes fuel it with
    | Done it' => let p := last (it_buf it') 0 in
                  prev_result (snd c) p /\ it_i it' = length (it_buf it') /\ it_buf it' <> [] /\
                  R (with_i it' (pred (it_i it'))) (p + 1, p)
    | Thrown _ => False
    | OutOfFuel => True
    end.
  Proof.
    intros HR Hi. unfold Iterator.generate_prev_primes.
    destruct (it_buf it) as [|x0 buf0] eqn:EB.
    - destruct (R_lo_fresh it c HR EB) as (Hg & Hst & Hs & Hc). rewrite Hg.
      pose proof (gen_prev_loop_spec fuel (it_start it) (it_hint it) (get_data it) Hs) as HL. cbn zeta in HL.
      assert (Hhi : snd c = if d_incl (get_data it) then it_start it + 1 else it_start it)
        by (rewrite Hc; destruct (d_incl (get_data it)); reflexivity).
      rewrite <- Hhi in HL.
      destruct (Iterator.gen_prev_loop prevDist maxGap kernel fuel (it_start it) (it_hint it) (get_data it))
        as [[[s' b] d']|x|]; [|exact HL|exact I].
      destruct HL as (Hb & Hp). cbn [it_buf it_i]. split; [exact Hp|]. split; [reflexivity|]. split; [exact (proj1 Hb)|].
      apply R_of_bwd. exact Hb.
    - assert (Hne : it_buf it <> []) by (rewrite EB; discriminate).
      assert (HM : exists d, it_mem it = Some d /\ d_incl d = false /\ c = (x0 + 1, x0)).
      { unfold R, cur_val in HR. rewrite EB, Hi in HR. destruct HR as (_ & Hc & d & Hm & Hincl & _). exists d. cbn [nth] in Hc. auto. }
      destruct HM as (d & Hmem & Hincl & Hc). unfold get_data. rewrite Hmem. rewrite Hc. cbn [snd hd].
      assert (Hx0 : x0 <= MAX64) by (apply (R_buf_le it c x0 HR); rewrite EB; left; reflexivity).
      destruct (d_gen d) as [g|] eqn:Eg.
      + pose proof (gen_prev_loop_spec fuel x0 (it_hint it)
                      {| d_stop := d_stop d; d_dist := d_dist d; d_incl := d_incl d; d_gen := None |} Hx0) as HL.
        cbn zeta in HL. cbn [d_incl] in HL. rewrite Hincl in HL |- *.
        destruct (Iterator.gen_prev_loop prevDist maxGap kernel fuel x0 (it_hint it) _)
          as [[[s' b] d']|x|]; [|exact HL|exact I].
        destruct HL as (Hb & Hp). cbn [it_buf it_i]. split; [exact Hp|]. split; [reflexivity|]. split; [exact (proj1 Hb)|].
        apply R_of_bwd. exact Hb.
      + assert (Hs : it_start it <= MAX64).
        { unfold R in HR. rewrite EB in HR. destruct HR as (_ & _ & d' & Hm & _ & _ & HG).
          rewrite Hmem in Hm. injection Hm as <-. rewrite Eg in HG. tauto. }
        pose proof (gen_prev_loop_spec fuel (it_start it) (it_hint it) d Hs) as HL.
        cbn zeta in HL. rewrite Hincl in HL.
        destruct (Iterator.gen_prev_loop prevDist maxGap kernel fuel (it_start it) (it_hint it) d)
          as [[[s' b] d']|x|]; [|exact HL|exact I].
        destruct HL as (Hb & Hp). cbn [it_buf it_i]. split.
        * pose proof (R_first_bwd it c d (last b 0) HR Hne Hmem Eg Hp) as H. rewrite EB in H. exact H.
        * split; [reflexivity|]. split; [exact (proj1 Hb)|]. apply R_of_bwd. exact Hb.
  Qed.

  (* ---------- the step theorem ---------- *)

  Theorem step_refines fuel it c o it' r :
    R it c -> op_ok o -> step fuel it o = Done (it', r) ->
    exists c', cursor_step c o c' r /\ R it' c'.
  Proof.
    intros HR Hok Hstep. destruct c as [lo hi1]. destruct o; cbn [Iterator.step] in Hstep.
    - (* Next *)
      unfold Iterator.next_prime in Hstep.
      destruct (Nat.ltb_spec (S (it_i it)) (length (it_buf it))) as [Hlt|Hge].
      + injection Hstep as <- <-.
        destruct (nth_split2 (it_buf it) (it_i it) 0 Hlt) as (l1 & l2 & E).
        pose proof (R_buf_adj it _ _ _ _ _ HR E) as [Hn _].
        assert (Hc : (lo, hi1) = (cur_val it + 1, cur_val it)).
        { unfold R in HR. destruct (it_buf it); [cbn in Hlt; lia|]. tauto. }
        injection Hc as -> ->. fold (cur_val it) in Hn.
        set (q := nth (S (it_i it)) (it_buf it) 0) in *.
        assert (Hq : q <= MAX64).
        { apply (R_buf_le it _ q HR). rewrite E. apply in_or_app. right. right. left. reflexivity. }
        exists (q + 1, q). split.
        * left. exists q. split; [exact Hn|]. split; [u64; lia|]. split; reflexivity.
        * unfold R in *. unfold with_i, cur_val. cbn [it_buf it_i it_mem it_start].
          destruct (it_buf it) as [|x0 b0]; [cbn in Hlt; lia|].
          destruct HR as (_ & _ & HR). split; [exact Hlt|]. split; [reflexivity|]. exact HR.
      + pose proof (generate_next_spec fuel it (lo, hi1) HR ltac:(lia)) as HG. cbn [fst] in HG.
        destruct (generate_next_primes fuel it) as [it1|it1|]; [| |discriminate]; injection Hstep as <- <-.
        * destruct HG as (Hn & Hle & HR'). eexists. split; [|exact HR'].
          left. eexists. split; [exact Hn|]. split; [u64; lia|]. split; reflexivity.
        * destruct HG as (Hnone & HR'). exists (lo, hi1). split; [|exact HR']. right. auto.
    - (* Prev *)
      unfold Iterator.prev_prime in Hstep. destruct (it_i it) as [|i'] eqn:Ei.
      + pose proof (generate_prev_spec fuel it (lo, hi1) HR Ei) as HG. cbn [snd] in HG.
        destruct (generate_prev_primes fuel it) as [it1|it1|]; [|destruct HG|discriminate].
        injection Hstep as <- <-. destruct HG as (Hp & Hi1 & Hne1 & HR').
        assert (Hnth : nth (pred (it_i it1)) (it_buf it1) 0 = last (it_buf it1) 0).
        { rewrite Hi1. apply nth_last. exact Hne1. }
        rewrite Hnth. eexists. split; [|exact HR'].
        destruct Hp as [Hp|[Hz Hnone]].
        * left. eexists. split; [exact Hp|]. split; reflexivity.
        * right. rewrite Hz. repeat split; try reflexivity. exact Hnone.
      + injection Hstep as <- <-.
        assert (Hlt : (S i' < length (it_buf it))%nat).
        { unfold R in HR. destruct (it_buf it); [destruct HR as (H0 & _); lia|]. destruct HR as (H0 & _). lia. }
        destruct (nth_split2 (it_buf it) i' 0 Hlt) as (l1 & l2 & E).
        pose proof (R_buf_adj it _ _ _ _ _ HR E) as [_ Hp].
        assert (Hc : (lo, hi1) = (cur_val it + 1, cur_val it)).
        { unfold R in HR. destruct (it_buf it); [cbn in Hlt; lia|]. tauto. }
        injection Hc as -> ->. unfold cur_val in *. rewrite Ei in *.
        set (p := nth i' (it_buf it) 0) in *.
        exists (p + 1, p). split.
        * destruct Hp as [Hp|[Hz Hnone]].
          -- left. exists p. split; [exact Hp|]. split; reflexivity.
          -- right. rewrite Hz. repeat split; try reflexivity. exact Hnone.
        * unfold R in *. unfold with_i, cur_val. cbn [it_buf it_i it_mem it_start].
          destruct (it_buf it) as [|x0 b0]; [cbn in Hlt; lia|].
          destruct HR as (_ & _ & HR). split; [lia|]. split; [reflexivity|]. exact HR.
    - (* JumpTo *)
      injection Hstep as <- <-. exists (s, s + 1). split; [split; reflexivity|].
      unfold R, jump_to. cbn [it_buf it_i it_start it_mem]. split; [reflexivity|]. split; [exact Hok|].
      destruct (it_mem it); cbn [d_gen d_stop d_incl]; repeat split; reflexivity.
    - (* Skipto *)
      injection Hstep as <- <-. exists (s + 1, s). split; [split; reflexivity|].
      unfold R, skipto. cbn [it_buf it_i it_start it_mem d_gen d_stop d_incl]. repeat split; try reflexivity. exact Hok.
    - (* Clear *)
      injection Hstep as <- <-. exists fresh_cursor. split; [split; reflexivity|].
      unfold R, jump_to, fresh_cursor. cbn [it_buf it_i it_start it_mem]. split; [reflexivity|]. split; [u64; lia|].
      destruct (it_mem it); cbn [d_gen d_stop d_incl]; repeat split; reflexivity.
    - (* MoveRoundTrip *)
      injection Hstep as <- <-. exists (lo, hi1). split; [split; reflexivity|exact HR].
    - (* MovedFrom *)
      injection Hstep as <- <-. exists fresh_cursor. split; [split; reflexivity|].
      unfold R, fresh_iter, fresh_cursor. cbn. repeat split; try reflexivity. u64. lia.
  Qed.

  Theorem run_refines fuel : forall os it c it' rs,
    R it c -> Forall op_ok os -> run fuel it os = Done (it', rs) ->
    cursor_run c os rs /\ exists c', R it' c'.
  Proof.
    induction os as [|o os IH]; intros it c it' rs HR Hok Hrun; cbn [Iterator.run] in Hrun.
    - injection Hrun as <- <-. split; [constructor|exists c; exact HR].
    - apply Forall_cons_iff in Hok. destruct Hok as [Ho Hos].
      destruct (step fuel it o) as [[it1 r]|[it1 r]|] eqn:Es; [| discriminate | discriminate].
      destruct (step_refines fuel it c o it1 r HR Ho Es) as (c1 & Hstep & HR1).
      destruct (run fuel it1 os) as [[it2 rs2]|x|] eqn:Er; [|discriminate|discriminate].
      injection Hrun as <- <-.
      destruct (IH it1 c1 it2 rs2 HR1 Hos Er) as (Hrun2 & Hc').
      split; [econstructor; eassumption|exact Hc'].
  Qed.

  (* ---------- termination: every call returns ---------- *)

  Lemma gen_next_loop_total : forall n start hint d,
    d_gen d = None -> d_stop d <= MAX64 ->
    (N.to_nat (2 * (MAX64 - d_stop d) + (if d_incl d then 1 else 0)) < n)%nat ->
    gen_next_loop n start hint d <> OutOfFuel.
  Proof.
    induction n as [|n IH]; intros start hint d Hgen Hstop Hn; [lia|].
    cbn [Iterator.gen_next_loop]. rewrite Hgen.
    pose proof (updateNext_bounds hint d Hstop) as HB.
    destruct (updateNext nextDist maxGap hint d) as [[s stop] dist] eqn:EU.
    destruct HB as (Hs1 & Hs2 & Hs3).
    cbn [new_gen g_blocks g_top d_stop d_dist d_incl d_gen].
    destruct (cut (kernel s stop)) as [|b rest]; [|discriminate].
    destruct (N.leb_spec MAX64 stop) as [Htop|Htop]; [discriminate|].
    apply IH; cbn [d_gen d_stop d_incl]; [reflexivity|lia|].
    destruct (d_incl d); lia.
  Qed.

  Lemma gen_prev_loop_total : forall n start hint d,
    start <= MAX64 ->
    (N.to_nat (2 * start + (if d_incl d then 1 else 0)) < n)%nat ->
    gen_prev_loop n start hint d <> OutOfFuel.
  Proof.
    induction n as [|n IH]; intros start hint d Hstart Hn; [lia|].
    cbn [Iterator.gen_prev_loop].
    pose proof (updatePrev_bounds start hint d Hstart) as HB.
    destruct (updatePrev prevDist maxGap start hint d) as [[s stop] dist] eqn:EU.
    destruct HB as (Hs1 & Hs2 & Hs3).
    unfold prev_block. destruct (N.leb_spec s 2) as [Hs|Hs]; [cbn [app]; discriminate|].
    cbn [app]. destruct (kernel s stop) as [|x b]; [|discriminate].
    apply IH; [lia|]. cbn [d_incl]. destruct (d_incl d); lia.
  Qed.

  Lemma gen_next_loop_total' : forall n start hint d,
    d_stop d <= MAX64 ->
    (S (N.to_nat (2 * (MAX64 - d_stop d) + (if d_incl d then 1 else 0))) < n)%nat ->
    gen_next_loop n start hint d <> OutOfFuel.
  Proof.
    intros n start hint d Hstop Hn. destruct (d_gen d) as [g|] eqn:Eg.
    - destruct n as [|n]; [lia|]. cbn [Iterator.gen_next_loop]. rewrite Eg.
      destruct (g_blocks g); [|discriminate]. destruct (g_top g); [discriminate|].
      apply gen_next_loop_total; cbn [d_gen d_stop d_incl]; [reflexivity|exact Hstop|lia].
    - apply gen_next_loop_total; [exact Eg|exact Hstop|lia].
  Qed.

  (** a fuel that suffices for every call, whatever the heuristics return *)
  Definition enough_fuel : nat := S (S (N.to_nat (2 * MAX64 + 2))).

  Theorem step_total it c o : R it c -> op_ok o -> step enough_fuel it o <> OutOfFuel.
  Proof.
    intros HR Hok. destruct o; cbn [Iterator.step]; try discriminate.
    - unfold Iterator.next_prime. destruct (Nat.ltb (S (it_i it)) (length (it_buf it))); [discriminate|].
      assert (H : generate_next_primes enough_fuel it <> OutOfFuel); [|destruct (generate_next_primes enough_fuel it); congruence].
      unfold Iterator.generate_next_primes.
      assert (HL : gen_next_loop enough_fuel (it_start it) (it_hint it) (get_data it) <> OutOfFuel);
        [|destruct (Iterator.gen_next_loop nextDist maxGap kernel cut enough_fuel (it_start it) (it_hint it) (get_data it)) as [[[? ?] ?]|?|]; congruence].
      assert (Hst : d_stop (get_data it) <= MAX64).
      { unfold R, get_data in *. destruct (it_buf it).
        - destruct HR as (_ & Hs & HM). destruct (it_mem it); cbn [d_stop]; [destruct HM as (_ & -> & _)|]; exact Hs.
        - destruct HR as (_ & _ & d & -> & _ & Hs & _). exact Hs. }
      apply gen_next_loop_total'; [exact Hst|]. unfold enough_fuel.
      destruct (d_incl (get_data it)); u64; lia.
    - unfold Iterator.prev_prime. destruct (it_i it); [|discriminate].
      assert (H : generate_prev_primes enough_fuel it <> OutOfFuel); [|destruct (generate_prev_primes enough_fuel it); congruence].
      unfold Iterator.generate_prev_primes.
      destruct (d_gen (get_data it)) eqn:Eg.
      + assert (Hs2 : hd 0 (it_buf it) <= MAX64).
        { destruct (it_buf it) as [|x0 b0] eqn:EB; [cbn; u64; lia|]. cbn [hd].
          apply (R_buf_le it c x0 HR). rewrite EB. left. reflexivity. }
        assert (HL : gen_prev_loop enough_fuel (hd 0 (it_buf it)) (it_hint it)
                       {| d_stop := d_stop (get_data it); d_dist := d_dist (get_data it); d_incl := d_incl (get_data it); d_gen := None |} <> OutOfFuel).
        { apply gen_prev_loop_total; [exact Hs2|]. unfold enough_fuel. cbn [d_incl]. destruct (d_incl (get_data it)); u64; lia. }
        destruct (Iterator.gen_prev_loop prevDist maxGap kernel enough_fuel (hd 0 (it_buf it)) (it_hint it) _) as [[[? ?] ?]|?|]; congruence.
      + assert (Hs1 : it_start it <= MAX64).
        { unfold R, get_data in *. destruct (it_buf it) eqn:EB; [tauto|].
          destruct HR as (_ & _ & d & Hm & _ & Hst & HG). rewrite Hm in Eg. rewrite Eg in HG. tauto. }
        assert (HL : gen_prev_loop enough_fuel (it_start it) (it_hint it) (get_data it) <> OutOfFuel).
        { apply gen_prev_loop_total; [exact Hs1|]. unfold enough_fuel. destruct (d_incl (get_data it)); u64; lia. }
        destruct (Iterator.gen_prev_loop prevDist maxGap kernel enough_fuel (it_start it) (it_hint it) (get_data it)) as [[[? ?] ?]|?|]; congruence.
  Qed.
End Refinement.

(** The abstract iterator: a cursor in the sequence 0 :: primes.  It has no
    buffer, no chunk, no stop_hint.  State (lo, hi1): the next call of Next
    returns the least prime >= lo, the next call of Prev the greatest prime
    < hi1 (0 if there is none). *)
From Coq Require Import NArith List.
From PS Require Import Spec.Primes.
Import ListNotations.
Local Open Scope N_scope.

Inductive op :=
| Next | Prev
| JumpTo (s h : N)     (* C++ jump_to / C primesieve_jump_to: inclusive *)
| Skipto (s h : N)     (* C primesieve_skipto: exclusive *)
| Clear
| MoveRoundTrip        (* C++: it2 = std::move(it); it = std::move(it2); also self-move *)
| MovedFrom.           (* C++: the iterator has been moved from *)

Inductive out := Val (v : N) | Err | NoOut.

Definition cursor := (N * N)%type.
Definition fresh_cursor : cursor := (0, 1).

Definition lt_prev_prime (hi1 p : N) : Prop :=
  prime p /\ p < hi1 /\ forall q, prime q -> q < hi1 -> q <= p.

Definition cursor_step (c : cursor) (o : op) (c' : cursor) (r : out) : Prop :=
  let '(lo, hi1) := c in
  match o with
  | Next =>
      (exists p, is_next_prime lo p /\ p < U64 /\ r = Val p /\ c' = (p + 1, p)) \/
      ((forall p, prime p -> lo <= p -> U64 <= p) /\ r = Err /\ c' = c)
  | Prev =>
      (exists p, lt_prev_prime hi1 p /\ r = Val p /\ c' = (p + 1, p)) \/
      ((forall p, prime p -> p < hi1 -> False) /\ r = Val 0 /\ c' = (1, 0))
  | JumpTo s _ => r = NoOut /\ c' = (s, s + 1)
  | Skipto s _ => r = NoOut /\ c' = (s + 1, s)
  | Clear | MovedFrom => r = NoOut /\ c' = fresh_cursor
  | MoveRoundTrip => r = NoOut /\ c' = c
  end.

(** a history of operations with its outputs is a run of the cursor *)
Inductive cursor_run : cursor -> list op -> list out -> Prop :=
| run_nil c : cursor_run c [] []
| run_cons c o c' r os rs : cursor_step c o c' r -> cursor_run c' os rs -> cursor_run c (o :: os) (r :: rs).

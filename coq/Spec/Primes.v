(** L0 specification: primes, the ordered list of primes of an interval,
    next/previous prime relations.  Short enough to read in minutes; every
    property theorem is stated against these definitions. *)
From Coq Require Import ZArith NArith List Lia Znumtheory Bool Sorted.
Import ListNotations.
Local Open Scope N_scope.

Definition U64 : N := 18446744073709551616.
Definition MAX64 : N := 18446744073709551615.
(** the largest prime below 2^64 (used by the code as a literal) *)
Definition MAXPRIME64 : N := 18446744073709551557.

Definition prime (n : N) : Prop := Znumtheory.prime (Z.of_N n).

(** Executable primality by trial division with the divisors 2..sqrt n.
    [N.iter] recurses on the binary representation, so this also runs
    in extracted code. *)
Definition td_step (n : N) (st : N * bool) : N * bool :=
  (fst st + 1, snd st || (n mod fst st =? 0)).
Definition has_divisor (n : N) : bool :=
  snd (N.iter (N.sqrt n - 1) (td_step n) (2, false)).
Definition is_prime (n : N) : bool := (2 <=? n) && negb (has_divisor n).

(** [Nrange a len] = [a; a+1; ...; a+len-1] *)
Definition Nrange (a len : N) : list N :=
  map (fun i => a + N.of_nat i) (seq 0 (N.to_nat len)).

(** the primes p with a <= p <= b, ascending ([b + 1 - a] is truncated: empty when a > b) *)
Definition primes_between (a b : N) : list N := filter is_prime (Nrange a (b + 1 - a)).

Definition count_primes_spec (a b : N) : N := N.of_nat (length (primes_between a b)).

(** p is the least prime >= lo *)
Definition is_next_prime (lo p : N) : Prop :=
  prime p /\ lo <= p /\ forall q, prime q -> lo <= q -> p <= q.
(** p is the greatest prime <= hi *)
Definition is_prev_prime (hi p : N) : Prop :=
  prime p /\ p <= hi /\ forall q, prime q -> q <= hi -> q <= p.
Definition no_prime_in (a b : N) : Prop := forall q, prime q -> a <= q -> q <= b -> False.

(* ------------------------------------------------------------------ *)

Lemma td_iter n k :
  let r := N.iter k (td_step n) (2, false) in
  fst r = 2 + k /\
  (snd r = true <-> exists d, 2 <= d /\ d < 2 + k /\ n mod d = 0).
Proof.
  induction k as [|k IH] using N.peano_ind; cbn zeta.
  - cbn. split; [reflexivity|]. split; [discriminate|]. intros (d & H1 & H2 & _). lia.
  - rewrite N.iter_succ. cbn zeta in IH. destruct IH as [IHf IHs].
    destruct (N.iter k (td_step n) (2, false)) as [d0 b0] eqn:E. cbn [fst snd] in *.
    unfold td_step; cbn [fst snd]. subst d0. split; [lia|].
    rewrite orb_true_iff, IHs, N.eqb_eq. split.
    + intros [(d & H1 & H2 & H3)|H]. { exists d. repeat split; try assumption; lia. }
      exists (2 + k). repeat split; try assumption; lia.
    + intros (d & H1 & H2 & H3). destruct (N.eq_dec d (2 + k)) as [->|Hne]; [right; exact H3|].
      left. exists d. repeat split; try assumption; lia.
Qed.

Lemma has_divisor_spec n :
  has_divisor n = true <-> exists d, 2 <= d /\ d <= N.sqrt n /\ n mod d = 0.
Proof.
  unfold has_divisor. pose proof (td_iter n (N.sqrt n - 1)) as [_ H]. rewrite H. clear H.
  split; intros (d & H1 & H2 & H3); exists d; repeat split; try assumption; lia.
Qed.

Lemma sqrt_lt_self n : 2 <= n -> N.sqrt n < n.
Proof. intros H. apply N.sqrt_lt_lin. lia. Qed.

Lemma mod0_divide (n d : N) : d <> 0 -> (n mod d = 0 <-> (Z.of_N d | Z.of_N n)%Z).
Proof.
  intros Hd. split.
  - intros H. exists (Z.of_N (n / d)). pose proof (N.div_mod n d Hd). rewrite H in *. nia.
  - intros [k Hk]. apply N.mod_divide; [assumption|].
    exists (Z.to_N k). assert (0 <= k)%Z by nia. nia.
Qed.

Lemma prime_ge_2 n : prime n -> 2 <= n.
Proof. intros [H _]. lia. Qed.

Lemma is_prime_spec n : is_prime n = true <-> prime n.
Proof.
  unfold is_prime. rewrite andb_true_iff, negb_true_iff, N.leb_le. split.
  - intros [H2 Hnd]. unfold prime.
    destruct (prime_dec (Z.of_N n)) as [Hp|Hnp]; [exact Hp|exfalso].
    apply not_prime_divide in Hnp; [|lia]. destruct Hnp as (d & [Hd1 Hd2] & Hdiv).
    assert (Hcontra : has_divisor n = true); [|congruence].
    apply has_divisor_spec. destruct Hdiv as [e He].
    assert (He2 : (2 <= e)%Z) by nia.
    pose proof (N.sqrt_spec' n) as Hs.
    destruct (Z_le_gt_dec d (Z.of_N (N.sqrt n))) as [Hle|Hgt].
    + exists (Z.to_N d). repeat split; try lia. apply mod0_divide; [lia|].
      rewrite Z2N.id by lia. exists e; lia.
    + exists (Z.to_N e). assert (e <= Z.of_N (N.sqrt n))%Z by nia.
      repeat split; try lia. apply mod0_divide; [lia|].
      rewrite Z2N.id by lia. exists d; lia.
  - intros Hp. pose proof (prime_ge_2 _ Hp) as H2. split; [exact H2|].
    destruct (has_divisor n) eqn:E; [exfalso|reflexivity].
    apply has_divisor_spec in E. destruct E as (d & Hd1 & Hd2 & Hd3).
    pose proof (sqrt_lt_self n H2).
    apply mod0_divide in Hd3; [|lia].
    apply prime_divisors in Hd3; [|exact Hp]. lia.
Qed.

Lemma is_prime_false n : is_prime n = false <-> ~ prime n.
Proof. rewrite <- is_prime_spec. destruct (is_prime n); split; congruence. Qed.

Lemma prime_dec_N n : {prime n} + {~ prime n}.
Proof. destruct (is_prime n) eqn:E; [left; apply is_prime_spec; exact E|right; apply is_prime_false; exact E]. Qed.

(* ---------------- Nrange ---------------- *)

Lemma Nrange_length a len : length (Nrange a len) = N.to_nat len.
Proof. unfold Nrange. now rewrite map_length, seq_length. Qed.

Lemma In_Nrange a len x : In x (Nrange a len) <-> a <= x /\ x < a + len.
Proof.
  unfold Nrange. rewrite in_map_iff. split.
  - intros (i & <- & Hi). apply in_seq in Hi. lia.
  - intros [H1 H2]. exists (N.to_nat (x - a)). split; [lia|]. apply in_seq. lia.
Qed.

Lemma map_seq_shift a k n s :
  map (fun i => a + N.of_nat i) (seq (k + s) n) =
  map (fun i => (a + N.of_nat k) + N.of_nat i) (seq s n).
Proof.
  revert s. induction n as [|n IH]; intros s; [reflexivity|].
  cbn [seq map]. f_equal; [lia|]. rewrite <- IH. f_equal. f_equal. lia.
Qed.

Lemma Nrange_app a l1 l2 : Nrange a (l1 + l2) = Nrange a l1 ++ Nrange (a + l1) l2.
Proof.
  unfold Nrange. rewrite N2Nat.inj_add, seq_app, map_app. f_equal.
  cbn [plus]. replace (N.to_nat l1) with (N.to_nat l1 + 0)%nat at 1 by lia.
  rewrite map_seq_shift. rewrite N2Nat.id. reflexivity.
Qed.

Lemma Nrange_sorted a len : StronglySorted N.lt (Nrange a len).
Proof.
  unfold Nrange. generalize 0%nat as s. induction (N.to_nat len) as [|n IH]; intros s; cbn [seq map].
  - constructor.
  - constructor; [apply IH|]. apply Forall_forall. intros x Hx.
    apply in_map_iff in Hx. destruct Hx as (i & <- & Hi). apply in_seq in Hi. lia.
Qed.

Lemma StronglySorted_filter {A} (R : A -> A -> Prop) f l :
  StronglySorted R l -> StronglySorted R (filter f l).
Proof.
  induction 1 as [|x l Hs IH Hall]; cbn [filter]; [constructor|].
  destruct (f x); [|exact IH]. constructor; [exact IH|].
  apply Forall_forall. intros y Hy. apply filter_In in Hy.
  rewrite Forall_forall in Hall. apply Hall. tauto.
Qed.

(* ---------------- primes_between ---------------- *)

Lemma In_primes_between a b p : In p (primes_between a b) <-> a <= p /\ p <= b /\ prime p.
Proof.
  unfold primes_between. rewrite filter_In, In_Nrange, is_prime_spec.
  assert (a <= p /\ p < a + (b + 1 - a) <-> a <= p /\ p <= b) by lia. tauto.
Qed.

Lemma primes_between_sorted a b : StronglySorted N.lt (primes_between a b).
Proof. apply StronglySorted_filter, Nrange_sorted. Qed.

Lemma primes_between_empty a b : b < a -> primes_between a b = [].
Proof. intros H. unfold primes_between. replace (b + 1 - a) with 0 by lia. reflexivity. Qed.

Lemma primes_between_split a m b :
  a <= m + 1 -> m <= b -> primes_between a b = primes_between a m ++ primes_between (m + 1) b.
Proof.
  intros H1 H2. unfold primes_between.
  replace (b + 1 - a) with ((m + 1 - a) + (b + 1 - (m + 1))) by lia.
  rewrite Nrange_app, filter_app. do 3 f_equal. lia.
Qed.

Lemma primes_between_nil_iff a b : primes_between a b = [] <-> no_prime_in a b.
Proof.
  split.
  - intros H q Hq H1 H2. assert (Hin : In q (primes_between a b)) by (apply In_primes_between; tauto).
    rewrite H in Hin. exact Hin.
  - intros H. destruct (primes_between a b) as [|p l] eqn:E; [reflexivity|exfalso].
    assert (Hin : In p (primes_between a b)) by (rewrite E; left; reflexivity).
    apply In_primes_between in Hin. destruct Hin as (H1 & H2 & H3). exact (H p H3 H1 H2).
Qed.

Lemma sorted_head_least (x : N) l y : StronglySorted N.lt (x :: l) -> In y (x :: l) -> x <= y.
Proof.
  intros Hs [<-|Hin]; [lia|]. inversion Hs as [|? ? _ Hall]; subst.
  rewrite Forall_forall in Hall. specialize (Hall y Hin). lia.
Qed.

Lemma primes_between_head a b p l :
  primes_between a b = p :: l -> is_next_prime a p /\ p <= b.
Proof.
  intros E. assert (Hin : In p (primes_between a b)) by (rewrite E; left; reflexivity).
  apply In_primes_between in Hin. destruct Hin as (H1 & H2 & H3).
  split; [|exact H2]. split; [exact H3|]. split; [exact H1|].
  intros q Hq Hlo. destruct (N.le_gt_cases q b) as [Hqb|Hqb]; [|lia].
  assert (Hin : In q (primes_between a b)) by (apply In_primes_between; tauto).
  rewrite E in Hin. apply (sorted_head_least p l q); [|exact Hin].
  rewrite <- E. apply primes_between_sorted.
Qed.

Lemma sorted_last_greatest (l : list N) x y : StronglySorted N.lt (l ++ [x]) -> In y (l ++ [x]) -> y <= x.
Proof.
  induction l as [|z l IH]; cbn [app]; intros Hs Hin.
  - destruct Hin as [<-|[]]. lia.
  - inversion Hs as [|? ? Hs' Hall]; subst. destruct Hin as [<-|Hin].
    + rewrite Forall_forall in Hall. specialize (Hall x). 
      assert (In x (l ++ [x])) by (apply in_or_app; right; left; reflexivity). specialize (Hall H). lia.
    + apply IH; assumption.
Qed.

Lemma primes_between_last a b p l :
  primes_between a b = l ++ [p] -> is_prev_prime b p /\ a <= p.
Proof.
  intros E. assert (Hin : In p (primes_between a b)) by (rewrite E; apply in_or_app; right; left; reflexivity).
  apply In_primes_between in Hin. destruct Hin as (H1 & H2 & H3).
  split; [|exact H1]. split; [exact H3|]. split; [exact H2|].
  intros q Hq Hhi. destruct (N.le_gt_cases a q) as [Hqa|Hqa]; [|lia].
  assert (Hin : In q (primes_between a b)) by (apply In_primes_between; tauto).
  rewrite E in Hin. apply (sorted_last_greatest l p q); [|exact Hin].
  rewrite <- E. apply primes_between_sorted.
Qed.

Lemma is_next_prime_unique lo p q : is_next_prime lo p -> is_next_prime lo q -> p = q.
Proof. intros (H1 & H2 & H3) (G1 & G2 & G3). specialize (H3 q G1 G2). specialize (G3 p H1 H2). lia. Qed.

Lemma is_prev_prime_unique hi p q : is_prev_prime hi p -> is_prev_prime hi q -> p = q.
Proof. intros (H1 & H2 & H3) (G1 & G2 & G3). specialize (H3 q G1 G2). specialize (G3 p H1 H2). lia. Qed.

Lemma sorted_app_inv (l1 l2 : list N) :
  StronglySorted N.lt (l1 ++ l2) ->
  StronglySorted N.lt l1 /\ StronglySorted N.lt l2 /\ forall x y, In x l1 -> In y l2 -> x < y.
Proof.
  induction l1 as [|z l1 IH]; cbn [app]; intros Hs.
  - repeat split; [constructor|exact Hs|intros x y []].
  - inversion Hs as [|? ? Hs' Hall]; subst. destruct (IH Hs') as (I1 & I2 & I3).
    rewrite Forall_forall in Hall. repeat split.
    + constructor; [exact I1|]. apply Forall_forall. intros x Hx. apply Hall, in_or_app. now left.
    + exact I2.
    + intros x y [<-|Hx] Hy; [apply Hall, in_or_app; now right|now apply I3].
Qed.

(** consecutive elements of a list of consecutive primes *)
Lemma primes_between_adjacent a b l1 p q l2 :
  primes_between a b = l1 ++ p :: q :: l2 -> is_next_prime (p + 1) q /\ is_prev_prime (q - 1) p.
Proof.
  intros E.
  pose proof (primes_between_sorted a b) as Hs. rewrite E in Hs.
  assert (Hp : In p (primes_between a b)) by (rewrite E; apply in_or_app; right; left; reflexivity).
  assert (Hq : In q (primes_between a b)) by (rewrite E; apply in_or_app; right; right; left; reflexivity).
  apply In_primes_between in Hp, Hq. destruct Hp as (Hp1 & Hp2 & Hp3), Hq as (Hq1 & Hq2 & Hq3).
  apply sorted_app_inv in Hs. destruct Hs as (_ & Hs2 & Hlt).
  inversion Hs2 as [|? ? Hs3 Hall]; subst. rewrite Forall_forall in Hall.
  assert (Hpq : p < q) by (apply Hall; left; reflexivity).
  inversion Hs3 as [|? ? _ Hall2]; subst. rewrite Forall_forall in Hall2.
  assert (Hcases : forall r, prime r -> a <= r -> r <= b -> r < p \/ r = p \/ r = q \/ q < r).
  { intros r Hr Hra Hrb. assert (Hin : In r (primes_between a b)) by (apply In_primes_between; tauto).
    rewrite E in Hin. apply in_app_or in Hin. destruct Hin as [Hin|[<-|[<-|Hin]]].
    - left. apply Hlt; [exact Hin|left; reflexivity].
    - right; left; reflexivity.
    - right; right; left; reflexivity.
    - right; right; right. apply Hall2. exact Hin. }
  split.
  - split; [exact Hq3|]. split; [lia|]. intros r Hr Hlo.
    destruct (N.le_gt_cases r b) as [Hrb|Hrb]; [|lia].
    destruct (Hcases r Hr ltac:(lia) Hrb) as [H|[H|[H|H]]]; lia.
  - split; [exact Hp3|]. split; [lia|]. intros r Hr Hhi.
    destruct (N.le_gt_cases a r) as [Hra|Hra]; [|lia].
    destruct (Hcases r Hr Hra ltac:(lia)) as [H|[H|[H|H]]]; lia.
Qed.

(* some concrete facts used as non-vacuity witnesses *)
Example primes_to_30 : primes_between 0 30 = [2; 3; 5; 7; 11; 13; 17; 19; 23; 29].
Proof. vm_compute. reflexivity. Qed.

(** Extraction of the executable model for the correspondence checks.
    Directives: ExtrOcamlBasic (bool, option, unit, list, prod, sumbool, sumor,
    andb, orb) and ExtrOcamlZBigInt (positive, N, Z -> Big_int_Z.big_int).
    [nat] stays the extracted inductive type.  The files model.ml / model.mli
    are written into the directory coqc runs in (coq/). *)
From Coq Require Import Extraction ExtrOcamlBasic ExtrOcamlZBigInt.
From PS Require Import Spec.Primes Spec.Cursor Model.Pmath Model.Iterator Model.PrimeGen Model.Tiling Model.Calc Model.NthPrime Model.Store Model.Mem Model.VecM Model.PoolM Model.Wheel Model.Config Model.EratGeom Model.CrossOff Model.Decode Model.EratBigM Model.EratMediumM Model.Erat3M Model.SievingPrimesM.
Extraction Language OCaml.
Extraction "model.ml"
  is_prime primes_between
  checkedAdd checkedSub inBetween
  fresh_iter step chunks pg_primes
  align threshold idealNumThreads getThreadDistance plan
  ty_u64 ty_i64 ty_int checked exact eval
  nth_prime store_primes store_n_primes next_buffer addSievingPrime30 addSievingPrime210
  get_sieve_size initAlgorithms set_sieve_size set_num_threads segments cross_small sieve_loop surviving byte_val erat_self decode_word nextPrime_ctz nextPrime_bruijn run_bytes decode_array pad8 eb_store_all eb_run cross210 em_store_all em_run sieve_loop3 e3_init tiny_sieve tiny_built vec_run pool_step pool_init.

From PS Require Import Spec.Primes Spec.Cursor Model.Iterator.

(** C03 - An iterator is a consistent cursor under any operation history.
    This file contains only the property theorems (closed by [exact]) and
    their assumptions. *)
From Coq Require Import NArith List.
From PS Require Import Spec.Primes Spec.Cursor Model.Iterator Proofs.IteratorP Proofs.CursorP Proofs.IteratorCor.
Import ListNotations.
Local Open Scope N_scope.

(** For every start s, stop_hint h, history os (targets < 2^64), every choice
    of the chunk-length heuristics, every block cutter and every kernel that
    meets the kernel specification: the outputs of the iterator model are a
    run of the abstract cursor started at (s, s+1). *)
Theorem C03_iterator_refines_cursor :
  forall nextDist prevDist maxGap kernel cut, kernel_spec kernel -> cut_spec cut ->
  forall fuel s h os it' rs,
    s <= MAX64 -> Forall op_ok os ->
    run nextDist prevDist maxGap kernel cut fuel (fresh_iter s h) os = Done (it', rs) ->
    cursor_run (s, s + 1) os rs.
Proof. exact iterator_refines_cursor. Qed.
Print Assumptions C03_iterator_refines_cursor.

(** every call returns (no history runs out of the stated fuel, no exception escapes a step) *)
Theorem C03_iterator_total :
  forall nextDist prevDist maxGap kernel cut, kernel_spec kernel -> cut_spec cut ->
  forall os it c, R it c -> Forall op_ok os ->
    exists it' rs, run nextDist prevDist maxGap kernel cut enough_fuel it os = Done (it', rs).
Proof. exact iterator_total. Qed.
Print Assumptions C03_iterator_total.

(** stop_hint (and the heuristics, the block layout, the fuel) never change a returned value *)
Theorem C03_hint_irrelevant :
  forall nextDist prevDist maxGap kernel cut nextDist' prevDist' maxGap' kernel' cut'
         fuel fuel' s h h' os os' it1 rs it2 rs',
  kernel_spec kernel -> cut_spec cut -> kernel_spec kernel' -> cut_spec cut' ->
  s <= MAX64 -> Forall op_ok os -> Forall op_ok os' ->
  map erase_hint os = map erase_hint os' ->
  run nextDist prevDist maxGap kernel cut fuel (fresh_iter s h) os = Done (it1, rs) ->
  run nextDist' prevDist' maxGap' kernel' cut' fuel' (fresh_iter s h') os' = Done (it2, rs') ->
  rs = rs'.
Proof. exact hint_irrelevant. Qed.
Print Assumptions C03_hint_irrelevant.

(** a cleared, moved-from or re-jumped iterator behaves exactly like a fresh one *)
Theorem C03_cleared_is_fresh :
  forall nextDist prevDist maxGap kernel cut fuel fuel' s h o s' h' os it1 rs it2 rs',
  kernel_spec kernel -> cut_spec cut ->
  s <= MAX64 -> Forall op_ok os ->
  (o = Clear /\ s' = 0 \/ o = MovedFrom /\ s' = 0 \/ (exists hh, o = JumpTo s' hh) /\ s' <= MAX64) ->
  forall pre, Forall op_ok pre ->
  run nextDist prevDist maxGap kernel cut fuel (fresh_iter s h) (pre ++ o :: os) = Done (it1, rs) ->
  run nextDist prevDist maxGap kernel cut fuel' (fresh_iter s' h') os = Done (it2, rs') ->
  skipn (S (length pre)) rs = rs'.
Proof. exact cleared_is_fresh. Qed.
Print Assumptions C03_cleared_is_fresh.

(** the hypotheses are satisfiable: the specification itself is a kernel, [chunks n] a block cutter *)
Theorem C03_premises_inhabited : kernel_spec primes_between /\ forall n, cut_spec (chunks n).
Proof. exact (conj (fun a b _ _ => eq_refl) chunks_ok). Qed.
Print Assumptions C03_premises_inhabited.

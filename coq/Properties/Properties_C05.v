(** C05 - prime k-tuplet counts (k = 2..6) are exact, including small and boundary cases. *)
From Coq Require Import NArith List Bool String.
From PS Require Import Spec.Primes Gen.Tables Model.Count Model.Tiling Proofs.CountP Proofs.TilingP.
Import ListNotations.
Local Open Scope N_scope.

(** mask lemma: for every kind and every byte value, the source's mask row (walked with the loop
    condition "*b <= byte") selects exactly the constellations among the numbers of the byte *)
Theorem C05_mask_lemma : forall idx j,
  (1 <= idx <= 5)%nat -> j < 256 ->
  byte_tuplets (nth idx kBitmasks []) 0 j = tuplets_of_set idx (byte_numbers 0 j).
Proof. exact mask_lemma. Qed.
Print Assumptions C05_mask_lemma.

Theorem C05_kcount_lemma : forall idx j,
  (1 <= idx <= 5)%nat -> j < 256 ->
  kcount (nth idx kBitmasks []) j = N.of_nat (List.length (tuplets_of_set idx (byte_numbers 0 j))).
Proof. exact kcount_lemma. Qed.
Print Assumptions C05_kcount_lemma.

(** a constellation with least member >= 7 whose members are coprime to 30 lies inside one sieve byte *)
Theorem C05_tuplet_one_byte : forall idx sh p,
  (1 <= idx <= 5)%nat -> In sh (shapes idx) -> 7 <= p ->
  (forall d, In d sh -> coprime30 (p + d) = true) ->
  let low := p - ((p - 7) mod 30 + 7) in
  low mod 30 = 0 /\ low + 7 <= p /\ p + last sh 0 <= low + 31.
Proof. exact tuplet_one_byte. Qed.
Print Assumptions C05_tuplet_one_byte.

(** the small-constellation table (members below 7) is exact: rows, bounds, kinds and printed text *)
Theorem C05_small_table_ok :
  Nat.eqb (List.length smallTuplets) (List.length small_spec) &&
  forallb (fun r => existsb (row_eqb r) small_spec) smallTuplets &&
  forallb (fun r => existsb (row_eqb r) smallTuplets) small_spec = true.
Proof. exact small_table_ok. Qed.
Print Assumptions C05_small_table_ok.

(** thread pieces never separate the numbers of one sieve byte and start above the small constellations *)
Theorem C05_no_split : forall td start stop p,
  1 <= td -> start <= stop -> stop < MAX64 ->
  In p (pieces td start stop) -> snd p < stop ->
  32 <= snd p /\ forall j, ~ (30 * j + 7 <= snd p /\ snd p < 30 * j + 31).
Proof. exact no_split. Qed.
Print Assumptions C05_no_split.

(** segment level: counting / printing byte by byte with the source's masks finds exactly the constellations all of
    whose members are among the numbers of the set bits of the segment (every byte contributes its own, none spans
    two bytes) - for every byte array and every base *)
From PS Require Import Proofs.TupletsP Proofs.TupletsTopP Model.CrossOff Model.Pmath Model.Config.
Theorem C05_segment_tuplets_spec : forall idx, (1 <= idx <= 5)%nat -> forall bytes low,
  low mod 30 = 0 -> Forall (fun j => j < 256) bytes ->
  segment_tuplets (nth idx kBitmasks []) low bytes = tuplets_of_set idx (seg_numbers low bytes).
Proof. exact segment_tuplets_spec. Qed.
Print Assumptions C05_segment_tuplets_spec.

(** top level over the model kernel (Properties_C04): the k-tuplets counted / printed for [start, stop], start >= 7, over
    the byte array that represents what the kernel delivers are exactly the constellations of primes of the interval.
    (The byte array is represented by its set of set bits; that the AND of the cleared masks yields these bytes is part
    of the cross-off unit correspondence, not of this theorem.) *)
Theorem C05_ktuplets_model_kernel : forall l1 maxKB idx start stop,
  16 <= maxKB -> maxKB <= 8192 -> (1 <= idx <= 5)%nat -> 7 <= start -> start <= stop -> stop <= MAX64 ->
  let low := start - byteRemainder start in
  let size := N.to_nat ((stop - low) / 30 + 1) in
  segment_tuplets (nth idx kBitmasks []) low (bytes_of_set (erat_self l1 maxKB start stop) low size)
  = tuplets_of_set idx (primes_between start stop).
Proof. exact ktuplets_model. Qed.
Print Assumptions C05_ktuplets_model_kernel.

(** bit level: the byte values of the sieve array after the cross-off (all ones AND the unset masks applied to the byte)
    have bit b set iff the pair (byte, mask b) was not cleared; for a full segment the numbers of the set bits are exactly
    the primes of the segment and the masks find exactly the constellations of those primes *)
From PS Require Import Proofs.BytesP Proofs.KernelLoopP.
Theorem C05_byte_values : forall cleared j b, masks_are_bits cleared -> b < 8 ->
  N.testbit (byte_val cleared j) b = negb (pair_mem j (bitmask b) cleared).
Proof. exact byte_val_bit. Qed.
Print Assumptions C05_byte_values.
Theorem C05_full_segment_tuplets : forall idx sg cleared, (1 <= idx <= 5)%nat ->
  k_low sg mod 30 = 0 -> seg_result_ok (sg, cleared) -> masks_are_bits cleared -> k_low sg + 30 * k_size sg + 1 <= k_high sg ->
  segment_tuplets (nth idx kBitmasks []) (k_low sg) (sieve_bytes sg cleared)
  = tuplets_of_set idx (primes_between (k_low sg + 7) (k_low sg + 30 * k_size sg + 1)).
Proof. exact full_segment_tuplets. Qed.
Print Assumptions C05_full_segment_tuplets.

(** bit level, whole run: the byte arrays the model kernel computes segment by segment (all ones AND the unset masks of the
    cross-off AND the end masks unsetSmaller / unsetLarger), concatenated, have exactly the primes of [start, stop] as the
    numbers of their set bits, and counting / printing k-tuplets over them byte by byte finds exactly the constellations of
    those primes - for every configuration and interval.  (The implementation's sieve bytes are compared with these arrays
    byte for byte: BYTES / kbytes.) *)
From PS Require Import Model.EratGeom Proofs.KernelTopP Proofs.BytesTopP.
Theorem C05_kernel_bytes_spec : forall l1 maxKB start stop fuelg fuel l result,
  16 <= maxKB -> maxKB <= 8192 -> 7 <= start -> start <= stop -> stop <= MAX64 ->
  segments fuelg l1 maxKB start stop = Some l ->
  sieve_loop fuel eratSmallSteps stop (map to_kseg l) (primes_between 7 (N.sqrt stop)) [] = Some result ->
  let low0 := a_segLow (initAlgorithms l1 maxKB start stop) in
  seg_numbers low0 (run_bytes start stop result) = primes_between start stop /\
  forall idx, (1 <= idx <= 5)%nat ->
    segment_tuplets (nth idx kBitmasks []) low0 (run_bytes start stop result) = tuplets_of_set idx (primes_between start stop).
Proof. exact kernel_bytes_spec. Qed.
Print Assumptions C05_kernel_bytes_spec.

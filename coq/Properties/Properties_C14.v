(** C14 - independent objects and concurrent calls do not influence each other. *)
From Coq Require Import List Arith.
From PS Require Import Model.Frame Proofs.FrameP.
Import ListNotations.

(** for any family of objects whose behaviour is a function of their own state (which is what the
    static scan of the library's writable symbols establishes for the iterator / API-call objects): in
    every interleaving, the outputs object j sees and its final state are those of its own operations
    run alone *)
Theorem C14_interleave_frame : forall (St Op Rs : Type) (stepf : St -> Op -> St * Rs) ops sts j s,
  nth_error sts j = Some s ->
  proj_out Rs j (snd (run_multi St Op Rs stepf sts ops)) = snd (run_solo St Op Rs stepf s (proj_ops Op j ops)) /\
  nth_error (fst (run_multi St Op Rs stepf sts ops)) j = Some (fst (run_solo St Op Rs stepf s (proj_ops Op j ops))).
Proof. exact interleave_frame. Qed.
Print Assumptions C14_interleave_frame.

(** C17 - memory is bounded by sqrt(stop) and the sieve size, not by the interval length; it is freed. *)
From Coq Require Import NArith List Bool.
From PS Require Import Spec.Primes Model.PrimeGen Model.Mem Proofs.MemP.
Local Open Scope N_scope.

(** a forward iterator's prime buffer is never sized above 1024 entries, whatever primeCountUpper
    returns, for every (start, stop); it always holds the table primes, and has 64 free slots whenever
    the sieve is going to run *)
Theorem C17_forward_buffer_bounded : forall pcu start stop,
  let '(cap, size) := next_buffer pcu start stop in
  cap <= 1024 /\ size <= cap /\ (maxCachedPrime + 2 <= stop -> size + 64 <= cap).
Proof. exact next_buffer_bounds. Qed.
Print Assumptions C17_forward_buffer_bounded.

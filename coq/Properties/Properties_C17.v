(** C17 - memory is bounded by sqrt(stop) and the sieve size, not by the interval length; it is freed. *)
From Coq Require Import NArith List Bool.
From PS Require Import Spec.Primes Model.PrimeGen Model.Mem Proofs.MemP Model.VecM Proofs.VecP Model.PoolM Proofs.PoolP.
Local Open Scope N_scope.

(** a forward iterator's prime buffer is never sized above 1024 entries, whatever primeCountUpper
    returns, for every (start, stop); it always holds the table primes, and has 64 free slots whenever
    the sieve is going to run *)
Theorem C17_forward_buffer_bounded : forall pcu start stop,
  let '(cap, size) := next_buffer pcu start stop in
  cap <= 1024 /\ size <= cap /\ (maxCachedPrime + 2 <= stop -> size + 64 <= cap).
Proof. exact next_buffer_bounds. Qed.
Print Assumptions C17_forward_buffer_bounded.

(** primesieve's own Vector (include/primesieve/Vector.hpp), for every history of push_back /
    reserve / resize / append / clear on a Vector that starts empty: size() <= capacity() and the
    capacity is at most twice the largest size or reservation the caller ever asked for - the
    containers add a constant factor to what their users (sieve array, buckets' pointers, sieving
    primes, prime buffers) request, never more *)
Theorem C17_vector_capacity_bounded : forall ops,
  fst (vec_run ops) <= snd (vec_run ops) /\ snd (vec_run ops) <= 2 * vec_high (0, 0) ops.
Proof. exact vec_capacity_bounded. Qed.
Print Assumptions C17_vector_capacity_bounded.

(** the hypotheses are met by a non-trivial history: 5 push_backs, reserve(7), resize(20), clear *)
Example C17_vector_example :
  vec_run (VPush :: VPush :: VPush :: VPush :: VPush :: VReserve 7 :: VResize 20 :: VClear :: nil) = (0, 20)
  /\ vec_high (0, 0) (VPush :: VPush :: VPush :: VPush :: VPush :: VReserve 7 :: VResize 20 :: VClear :: nil) = 20.
Proof. split; vm_compute; reflexivity. Qed.

(** the bucket pool (src/MemoryPool.cpp), for every history of addBucket / freeBucket, every
    placement of the allocations (std::align may waste one bucket) and every maxCount =
    MAX_ALLOC_BYTES / sizeof(Bucket) >= 73 (2048 in the pinned tree, compared on every run): no
    bucket is ever lost (free list + buckets in use = all buckets allocated), and the pool owns at
    most [peak number of buckets in use at once + maxCount] buckets; every allocation holds at most
    maxCount buckets *)
Theorem C17_memory_pool_bounded : forall maxCount, 73 <= maxCount -> forall ops,
  let p := pool_run maxCount ops in
  stock p + inuse p = total p /\ inuse p <= peak p /\ total p < peak p + maxCount + 1 /\ count p <= maxCount.
Proof. exact pool_bounded. Qed.
Print Assumptions C17_memory_pool_bounded.

Example C17_memory_pool_example :
  let p := pool_run 2048 (repeat (PAdd false) 75 ++ repeat PFree 3) in
  (nalloc p, count p, stock p, inuse p, total p, peak p) = (2, 18, 19, 72, 91, 75).
Proof. vm_compute. reflexivity. Qed.

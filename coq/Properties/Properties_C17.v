(** C17 - memory is bounded by sqrt(stop) and the sieve size, not by the interval length; it is freed. *)
From Coq Require Import NArith List Bool.
From PS Require Import Spec.Primes Model.PrimeGen Model.Mem Proofs.MemP Model.VecM Proofs.VecP.
Local Open Scope N_scope.

(** a forward iterator's prime buffer is never sized above 1024 entries, whatever primeCountUpper
    returns, for every (start, stop); it always holds the table primes, and has 64 free slots whenever
    the sieve is going to run *)
Theorem C17_forward_buffer_bounded : forall pcu start stop,
  let '(cap, size) := next_buffer pcu start stop in
  cap <= 1024 /\ size <= cap /\ (maxCachedPrime + 2 <= stop -> size + 64 <= cap).
Proof. exact next_buffer_bounds. Qed.
Print Assumptions C17_forward_buffer_bounded.

(** primesieve's own Vector (include/primesieve/Vector.hpp), for every history of push_back /
    reserve / resize / append / clear on a Vector that starts empty: size() <= capacity() and the
    capacity is at most twice the largest size or reservation the caller ever asked for - the
    containers add a constant factor to what their users (sieve array, buckets' pointers, sieving
    primes, prime buffers) request, never more *)
Theorem C17_vector_capacity_bounded : forall ops,
  fst (vec_run ops) <= snd (vec_run ops) /\ snd (vec_run ops) <= 2 * vec_high (0, 0) ops.
Proof. exact vec_capacity_bounded. Qed.
Print Assumptions C17_vector_capacity_bounded.

(** the hypotheses are met by a non-trivial history: 5 push_backs, reserve(7), resize(20), clear *)
Example C17_vector_example :
  vec_run (VPush :: VPush :: VPush :: VPush :: VPush :: VReserve 7 :: VResize 20 :: VClear :: nil) = (0, 20)
  /\ vec_high (0, 0) (VPush :: VPush :: VPush :: VPush :: VPush :: VReserve 7 :: VResize 20 :: VClear :: nil) = 20.
Proof. split; vm_compute; reflexivity. Qed.

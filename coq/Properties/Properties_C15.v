(** C15 - printed primes and k-tuplets are exactly the counted ones, in order and format. *)
From Coq Require Import NArith List Bool String.
From PS Require Import Spec.Primes Gen.Tables Model.Count Proofs.CountP.
Import ListNotations.
Local Open Scope N_scope.

(** printkTuplets walks, per byte, the same mask row as the count table: what is printed for a byte
    is what is counted for it, and it is the list of constellations of the byte ordered by first member *)
Theorem C15_printed_is_counted : forall idx j,
  (1 <= idx <= 5)%nat -> j < 256 ->
  byte_tuplets (nth idx kBitmasks []) 0 j = tuplets_of_set idx (byte_numbers 0 j) /\
  kcount (nth idx kBitmasks []) j = N.of_nat (List.length (byte_tuplets (nth idx kBitmasks []) 0 j)).
Proof.
  exact (fun idx j Hi Hj => conj (mask_lemma idx j Hi Hj)
           (eq_trans (kcount_lemma idx j Hi Hj) (f_equal (fun l => N.of_nat (List.length l)) (eq_sym (mask_lemma idx j Hi Hj))))).
Qed.
Print Assumptions C15_printed_is_counted.

(** the strings of the small-constellation table are the decimal rendering "(a, b, ...)" of their members *)
Theorem C15_small_strings_ok :
  Nat.eqb (List.length smallTuplets) (List.length small_spec) &&
  forallb (fun r => existsb (row_eqb r) small_spec) smallTuplets &&
  forallb (fun r => existsb (row_eqb r) smallTuplets) small_spec = true.
Proof. exact small_table_ok. Qed.
Print Assumptions C15_small_strings_ok.

(** the whole pipeline over the model kernel at bit level: the byte arrays of all segments (all ones AND the unset masks of
    the cross-off AND the end masks), zero-padded to a multiple of 8 bytes and decoded word by word
    (littleendian 64-bit words, "for (; bits != 0; bits &= bits - 1) nextPrime(bits, low)", either variant of nextPrime),
    yield exactly the primes of [start, stop] in ascending order - what print_primes / the iterator buffers receive *)
From PS Require Import Model.Config Model.EratGeom Model.CrossOff Model.Decode Proofs.KernelTopP Proofs.DecodeTopP.
Theorem C15_kernel_decode_spec : forall next l1 maxKB start stop fuelg fuel l result k,
  (next = nextPrime_ctz \/ next = nextPrime_bruijn) ->
  16 <= maxKB -> maxKB <= 8192 -> 7 <= start -> start <= stop -> stop <= MAX64 ->
  segments fuelg l1 maxKB start stop = Some l ->
  sieve_loop fuel eratSmallSteps stop (map to_kseg l) (primes_between 7 (N.sqrt stop)) [] = Some result ->
  List.length (pad8 (run_bytes start stop result)) = (8 * k)%nat ->
  decode_array k next (pad8 (run_bytes start stop result)) (a_segLow (initAlgorithms l1 maxKB start stop)) = primes_between start stop.
Proof. exact kernel_decode_spec. Qed.
Print Assumptions C15_kernel_decode_spec.

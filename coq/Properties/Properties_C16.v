(** C16 - command line: numeric arguments are exact or rejected. *)
From Coq Require Import ZArith NArith List.
From PS Require Import Model.Calc Proofs.CalcP.
Import ListNotations.

(** For every C++ integer type ty (uint64_t, int, int64_t ranges), every input
    string s: if the overflow-checked evaluator (the model of
    calculator::ExpressionParser<T> after the fix) accepts s with value v, then
    the evaluation of s in unbounded integer arithmetic yields the same v. *)
Theorem C16_checked_exact : forall ty s v rest,
  eval (checked ty) s = POk v rest -> eval (exact ty) s = POk v rest.
Proof. exact checked_exact. Qed.
Print Assumptions C16_checked_exact.

(** the parser's control flow does not depend on the value algebra: any algebra A that
    refines an algebra B operation by operation gives the same accepted results *)
Theorem C16_parser_parametric : forall A B : alg,
  (forall v b d r, a_lit A v b d = Some r -> a_lit B v b d = Some r) ->
  (forall v r, a_neg A v = Some r -> a_neg B v = Some r) ->
  (forall v r, a_not A v = Some r -> a_not B v = Some r) ->
  (forall k x y r, a_bin A k x y = Some r -> a_bin B k x y = Some r) ->
  forall s v rest, eval A s = POk v rest -> eval B s = POk v rest.
Proof. exact eval_ref. Qed.
Print Assumptions C16_parser_parametric.

(** results of +, -, *, /, << always lie in the range of the type *)
Theorem C16_arith_in_range : forall ty k x y r,
  In k [OAdd; OSub; OMul; ODiv; OShl] -> a_bin (checked ty) k x y = Some r -> in_range ty r = true.
Proof. exact checked_arith_in_range. Qed.
Print Assumptions C16_arith_in_range.

(** 2^64 is rejected (its exact value is 18446744073709551616) *)
Theorem C16_rejects_2_64 :
  eval (checked ty_u64) [50; 94; 54; 52]%N = PErr EOverflow /\
  eval (exact ty_u64) [50; 94; 54; 52]%N = POk 18446744073709551616%Z [].
Proof. exact calc_rejects_2_64. Qed.
Print Assumptions C16_rejects_2_64.

(** C04 - count_primes equals pi(stop) - pi(start - 1) exactly. *)
From Coq Require Import NArith List Bool.
From PS Require Import Spec.Primes Model.Tiling Model.Config Model.EratGeom Proofs.TilingP Proofs.PrimeGenP Proofs.CountAddP Proofs.EratGeomP.
Import ListNotations.
Local Open Scope N_scope.

(** counts are additive over adjacent intervals *)
Theorem C04_count_additive : forall a m b, a <= m + 1 -> m <= b ->
  count_primes_spec a b = count_primes_spec a m + count_primes_spec (m + 1) b.
Proof. exact count_additive. Qed.
Print Assumptions C04_count_additive.

(** PrimeSieve::sieve: 2, 3, 5 from the small table, the rest from the sieve on [max(start, 7), stop] *)
Theorem C04_small_primes_split : forall start stop,
  primes_between start stop = filter (fun p => (start <=? p) && (p <=? stop)) [2; 3; 5] ++ primes_between (N.max start 7) stop.
Proof. exact small_primes_split. Qed.
Print Assumptions C04_small_primes_split.

(** with several threads the counts of the pieces add up to the count of the interval *)
Theorem C04_tiling_counts : forall td start stop,
  1 <= td -> start <= stop -> stop < MAX64 ->
  concat (map (fun p => primes_between (fst p) (snd p)) (pieces td start stop)) = primes_between start stop.
Proof. exact tiling_counts. Qed.
Print Assumptions C04_tiling_counts.

(** the kernel's surroundings: for every L1 size, sieve-size setting and interval, the segments Erat sieves
    are well formed: bases = 0 (mod 30) and adjacent, every full segment has segmentHigh = base + 30*bytes + 6
    < stop (all its numbers are <= segmentHigh), the last segment's size is computed without underflow and ends
    in the byte of stop, the first segment contains start in its first byte; and the loop terminates *)
Theorem C04_segments_ok : forall l1 maxKB start stop fuel l,
  16 <= maxKB -> maxKB <= 8192 -> 7 <= start -> start <= stop -> stop <= MAX64 ->
  segments fuel l1 maxKB start stop = Some l ->
  l <> [] /\ Forall (seg_ok stop) l /\ adjacent l /\
  let low0 := s_low (hd {| s_low := 0; s_high := 0; s_bytes := 0; s_last := false |} l) in
  low0 mod 30 = 0 /\ low0 + 7 <= start /\ start <= low0 + 36.
Proof. exact segments_ok. Qed.
Print Assumptions C04_segments_ok.

Theorem C04_segments_terminate : forall stop, stop <= MAX64 -> forall fuel low high size,
  geom_inv stop low high size ->
  (N.to_nat ((stop - low) / (30 * size)) + 2 <= fuel)%nat ->
  segments_loop fuel stop low high size <> None.
Proof. exact segments_loop_total. Qed.
Print Assumptions C04_segments_terminate.

(** the cross-off step tables of the three sieving algorithms, as extracted from the current source, are
    exact (every entry clears the bit of the current multiple and moves to the next wheel multiple) *)
From PS Require Import Gen.Tables Proofs.WheelStepsP.
Theorem C04_step_tables_ok :
  steps30_ok eratSmallSteps = true /\ steps30_ok eratMediumSteps = true /\ steps210_ok eratBigWheel = true /\ unrolled_ok = true.
Proof. exact (conj eratSmallSteps_ok (conj eratMediumSteps_ok (conj eratBigWheel_ok eratSmallUnrolled_ok))). Qed.
Print Assumptions C04_step_tables_ok.
Theorem C04_step_lift : forall low i sp r o gap c o',
  o + gap * r = 30 * c + o' ->
  (low + 30 * i + o) + gap * (30 * sp + r) = low + 30 * (i + gap * sp + c) + o'.
Proof. exact step_lift. Qed.
Print Assumptions C04_step_lift.

(** ---- the sieve kernel proper (EratSmall; EratMedium uses the same step semantics with its own table) *)
From PS Require Import Model.Wheel Model.CrossOff Proofs.CrossOffP Proofs.KernelP Proofs.KernelInitP.

(** the cross-off loop for one sieving prime in one segment computes its specification (the multiples prime*q
    for the successive cofactors coprime to 30) and leaves the state of the next multiple - every sieving
    prime, segment base, size, starting cofactor; both extracted step tables *)
Theorem C04_cross_off_refines : forall steps, steps = eratSmallSteps \/ steps = eratMediumSteps ->
  forall fuel size low sp ri qi q i cl i' w',
  Inv low sp ri qi q i ->
  cross fuel steps size sp i (8 * ri + qi) = Some (cl, i', w') ->
  exists qe qie, spec_cross fuel low size (sprime sp ri) q = Some (cl, qe) /\
                 Inv (low + 30 * size) sp ri qie qe i' /\ w' = 8 * ri + qie.
Proof.
  exact (fun steps H => match H with
                        | or_introl e => eq_ind_r (fun s => forall fuel size low sp ri qi q i cl i' w', Inv low sp ri qi q i -> cross fuel s size sp i (8 * ri + qi) = Some (cl, i', w') -> exists qe qie, spec_cross fuel low size (sprime sp ri) q = Some (cl, qe) /\ Inv (low + 30 * size) sp ri qie qe i' /\ w' = 8 * ri + qie) (cross_refines eratSmallSteps eratSmallSteps_entries) e
                        | or_intror e => eq_ind_r (fun s => forall fuel size low sp ri qi q i cl i' w', Inv low sp ri qi q i -> cross fuel s size sp i (8 * ri + qi) = Some (cl, i', w') -> exists qe qie, spec_cross fuel low size (sprime sp ri) q = Some (cl, qe) /\ Inv (low + 30 * size) sp ri qie qe i' /\ w' = 8 * ri + qie) (cross_refines eratMediumSteps eratMediumSteps_entries) e
                        end).
Qed.
Print Assumptions C04_cross_off_refines.

(** the kernel theorem for one segment: with every prime 7 <= p, p*p <= high present as a sieving prime in a
    correct and minimal state (or without any multiple left below stop), after the cross-off the bit of a number
    n <= high of the segment is still set iff n is prime *)
Theorem C04_kernel_segment : forall fuel low size high stop (ws : list wstate) cleared sts',
  low mod 30 = 0 ->
  Forall (w_ok low) ws ->
  (forall p, prime p -> 7 <= p -> p * p <= high ->
     In p (map w_prime ws) \/ (forall q, p <= q -> coprime30 q -> low + 7 <= p * q -> stop < p * q)) ->
  cross_all fuel eratSmallSteps size (map w_state ws) = Some (cleared, sts') ->
  forall n, coprime30 n -> low + 7 <= n -> byteof low n < size -> 7 <= n -> n <= high -> n <= stop ->
  (~ In (byteof low n, maskof n) cleared <-> prime n).
Proof. exact (kernel_segment eratSmallSteps eratSmallSteps_entries). Qed.
Print Assumptions C04_kernel_segment.

Theorem C04_kernel_next_states : forall fuel low size, low mod 30 = 0 -> forall (ws : list wstate) cleared sts',
  Forall (w_ok low) ws ->
  cross_all fuel eratSmallSteps size (map w_state ws) = Some (cleared, sts') ->
  (forall b m, In (b, m) cleared <-> exists x q', In x ws /\ w_q x <= q' /\ coprime30 q' /\ byteof low (w_prime x * q') < size /\
                                          b = byteof low (w_prime x * q') /\ m = maskof (w_prime x * q')) /\
  exists ws', Forall (w_ok (low + 30 * size)) ws' /\ map w_prime ws' = map w_prime ws /\ map w_state ws' = sts'.
Proof. exact (cross_all_spec eratSmallSteps eratSmallSteps_entries). Qed.
Print Assumptions C04_kernel_next_states.

(** Wheel::addSievingPrime (wheel30Init / wheelOffsets_ from the source) stores a new sieving prime in exactly
    such a state: the least cofactor q >= prime coprime to 30 with prime*q > segmentLow + 6 *)
Theorem C04_addSievingPrime_state : forall stop p low mi wi,
  prime p -> 7 <= p -> p < 2 ^ 32 -> low mod 30 = 0 -> stop <= MAX64 -> low + 6 <= MAX64 ->
  addSievingPrime30 stop p low = Some (mi, wi) ->
  exists ri qi q, wi = 8 * ri + qi /\ sprime (p / 30) ri = p /\ w_ok low (p / 30, ri, qi, q, mi) /\ p * q <= stop.
Proof. exact asp30_state_ok. Qed.
Print Assumptions C04_addSievingPrime_state.

(** a prime for which addSievingPrime stores nothing has no multiple left at or below stop *)
Theorem C04_addSievingPrime_none : forall stop p low,
  prime p -> 7 <= p -> p < 2 ^ 32 -> low mod 30 = 0 -> stop <= MAX64 -> low + 6 <= MAX64 ->
  addSievingPrime30 stop p low = None ->
  forall q, p <= q -> coprime30 q -> low + 7 <= p * q -> stop < p * q.
Proof. exact asp30_none_dead. Qed.
Print Assumptions C04_addSievingPrime_none.

(** ---- the kernel over the whole segment loop, for every configuration and interval: the segments of the geometry
    model (Erat::init / sieveSegment / sieveLastSegment), sieving primes = the primes 7 <= p <= sqrt(stop) in
    ascending order, each added through addSievingPrime when p*p <= segmentHigh, EratSmall's cross-off on an
    all-ones sieve: after every segment the bit of a number n <= segmentHigh of that segment is set iff n is prime *)
From PS Require Import Model.EratGeom Proofs.KernelLoopP Proofs.KernelTopP.
Theorem C04_erat_kernel_correct : forall l1 maxKB start stop fuelg fuel l result,
  16 <= maxKB -> maxKB <= 8192 -> 7 <= start -> start <= stop -> stop <= MAX64 ->
  segments fuelg l1 maxKB start stop = Some l ->
  sieve_loop fuel eratSmallSteps stop (map to_kseg l) (primes_between 7 (N.sqrt stop)) [] = Some result ->
  Forall seg_result_ok result.
Proof. exact erat_kernel_correct. Qed.
Print Assumptions C04_erat_kernel_correct.

(** list level: the numbers whose bit survives in a segment are exactly the primes of
    [low + 7, min(segmentHigh, low + 30*size + 6)] *)
Theorem C04_surviving_are_primes : forall sg cleared, k_low sg mod 30 = 0 -> seg_result_ok (sg, cleared) ->
  forall n, In n (surviving sg cleared) <->
            prime n /\ k_low sg + 7 <= n /\ n <= k_high sg /\ n <= k_low sg + 30 * k_size sg + 6.
Proof. exact surviving_spec. Qed.
Print Assumptions C04_surviving_are_primes.

(** non-vacuity: the model kernel evaluated inside the assistant returns exactly the primes of [7, 3000] *)
Theorem C04_kernel_run_example :
  kernel_run 10 4000 32768 16 7 3000 (primes_between 7 (N.sqrt 3000)) = Some (primes_between 7 3000).
Proof. exact kernel_run_small. Qed.
Print Assumptions C04_kernel_run_example.

(** ---- the pre-sieve: the 16 tables of the source (123 KB) are exact.  Bit b of byte k of the AND of all tables
    (byte k stands for the numbers 30k+7 .. 30k+31) is set iff 30k + bv[b] is divisible by none of the primes 7..163;
    the restored first bytes (primeBits) mark exactly the primes among 7..241 *)
From PS Require Import Gen.PreSieveTables Model.PreSieveM Proofs.TablesP Proofs.PreSieveTabP Proofs.PreSieveP.
Theorem C04_presieve_tables_ok : forall k b, b < 8 ->
  (N.testbit (presieve_and k) b = true <-> forall p, In p (primes_between 7 163) -> (30 * k + nthb b) mod p <> 0).
Proof. exact presieve_and_spec. Qed.
Print Assumptions C04_presieve_tables_ok.
Theorem C04_primeBits_ok :
  forallb (fun k => forallb (fun b => Bool.eqb (N.testbit (nth (N.to_nat k) primeBits 255) b) (is_prime (30 * k + nthb b))) (Nseq 8)) (Nseq 8) = true.
Proof. exact primeBits_ok. Qed.
Print Assumptions C04_primeBits_ok.

(** ---- pre-sieve and cross-off together (the kernel as the code runs it: the array starts pre-sieved, only the primes
    above 163 are sieving primes) *)
From PS Require Import Model.KernelPs Proofs.KernelPsP.
Theorem C04_presieve_bit_spec : forall low n, low mod 30 = 0 -> coprime30 n -> low + 7 <= n ->
  (presieve_bit low n = true <-> prime n \/ (163 < n /\ nosmall n)).
Proof. exact presieve_bit_spec. Qed.
Print Assumptions C04_presieve_bit_spec.

(** every configuration and interval: after each segment, "pre-sieved bit set and not crossed off" iff prime *)
Theorem C04_erat_kernel_presieved : forall l1 maxKB start stop fuelg fuel l result,
  16 <= maxKB -> maxKB <= 8192 -> 7 <= start -> start <= stop -> stop <= MAX64 ->
  segments fuelg l1 maxKB start stop = Some l ->
  sieve_loop fuel eratSmallSteps stop (map to_kseg l) (primes_between 164 (N.sqrt stop)) [] = Some result ->
  Forall (fun r => k_low (fst r) mod 30 = 0 /\ seg_result_ok_g 164 r) result.
Proof. exact erat_kernel_presieved. Qed.
Print Assumptions C04_erat_kernel_presieved.
Theorem C04_presieved_segment_spec : forall sg cleared, k_low sg mod 30 = 0 -> seg_result_ok_g 164 (sg, cleared) ->
  forall n, coprime30 n -> k_low sg + 7 <= n -> byteof (k_low sg) n < k_size sg -> 7 <= n -> n <= k_high sg ->
  (presieve_bit (k_low sg) n = true /\ ~ In (byteof (k_low sg) n, maskof n) cleared <-> prime n).
Proof. exact presieved_segment_spec. Qed.
Print Assumptions C04_presieved_segment_spec.
Theorem C04_kernel_run_ps_example :
  option_map (filter (fun n => 27000 <=? n)) (kernel_run_ps 10 400 32768 16 27000 29000 (primes_between 164 (N.sqrt 29000)))
  = Some (primes_between 27000 29000).
Proof. exact kernel_run_ps_small. Qed.
Print Assumptions C04_kernel_run_ps_example.

(** ---- list level, total: the model kernel (fuel computed from the geometry) returns, for every configuration and
    every interval 7 <= start <= stop < 2^64, exactly the primes of the interval in ascending order; it terminates *)
From PS Require Import Proofs.KernelTotalP Proofs.KernelListP.
Theorem C04_erat_model_spec : forall l1 maxKB, 16 <= maxKB -> maxKB <= 8192 ->
  forall s e, 7 <= s -> s <= e -> e <= MAX64 -> erat_model l1 maxKB s e = primes_between s e.
Proof. exact erat_model_spec. Qed.
Print Assumptions C04_erat_model_spec.

(** SievingPrimes: the kernel that produces its own sieving primes (for [7, sqrt(stop)], recursively, depth <= 5 below
    2^64) - a self-contained executable model in which no specification function occurs - returns the same *)
Theorem C04_erat_self_spec : forall l1 maxKB, 16 <= maxKB -> maxKB <= 8192 ->
  forall s e, 7 <= s -> s <= e -> e <= MAX64 -> erat_self l1 maxKB s e = primes_between s e.
Proof. exact erat_self_spec. Qed.
Print Assumptions C04_erat_self_spec.

(** count_primes over the model kernel (2, 3, 5 from the small table + the kernel on [max(start, 7), stop]) is exactly
    pi(stop) - pi(start - 1), for every configuration and every interval below 2^64: no hypothesis about the sieve *)
From PS Require Import Proofs.KernelInstP.
Theorem C04_count_model_kernel : forall l1 maxKB, 16 <= maxKB -> maxKB <= 8192 ->
  forall start stop, stop <= MAX64 ->
  N.of_nat (length (sieve_model l1 maxKB start stop)) = count_primes_spec start stop.
Proof. exact count_model_spec. Qed.
Print Assumptions C04_count_model_kernel.

(** the masks applied to the first byte of the first segment and the last byte of the last segment are exact *)
From PS Require Import Model.Count.
Theorem C04_end_masks_ok :
  length unsetSmaller = 37%nat /\ length unsetLarger = 37%nat /\
  forallb (fun r => forallb (fun b =>
      Bool.eqb (N.testbit (nthN' unsetSmaller r) (N.of_nat b)) (r <=? nth b bv 0) &&
      Bool.eqb (N.testbit (nthN' unsetLarger r) (N.of_nat b)) (nth b bv 0 <=? r)) (seq 0 8)) (Nseq 37) = true.
Proof. exact end_masks_ok. Qed.
Print Assumptions C04_end_masks_ok.

(** counting at bit level: the number of set bits of the byte arrays the model kernel computes (what the popcount of
    countPrimes sums up) is pi(stop) - pi(start - 1), for every configuration and every interval with start >= 7 *)
From PS Require Import Proofs.PopcountP.
Theorem C04_kernel_popcount_spec : forall l1 maxKB start stop fuelg fuel l result,
  16 <= maxKB -> maxKB <= 8192 -> 7 <= start -> start <= stop -> stop <= MAX64 ->
  segments fuelg l1 maxKB start stop = Some l ->
  sieve_loop fuel eratSmallSteps stop (map to_kseg l) (primes_between 7 (N.sqrt stop)) [] = Some result ->
  N.of_nat (popcount_bytes (run_bytes start stop result)) = count_primes_spec start stop.
Proof. exact kernel_popcount_spec. Qed.
Print Assumptions C04_kernel_popcount_spec.

(** EratBig: the bucket machine (lists of sieving primes per future segment, rotated after every segment) computes, up to
    the order inside the lists, what the single-prime loop with an absolute index computes for every stored prime *)
From Coq Require Import Permutation.
From PS Require Import Model.EratBigM Proofs.EratBigP Proofs.CrossOffP Proofs.CrossOff210P.
Theorem C04_eratbig_buckets_refine : forall log2 fuel b acc cl bf, wf log2 b -> eb_cross fuel log2 b acc = Some (cl, bf) ->
  exists rs, Forall2 (Rst log2) (abs_of log2 b) rs /\ Permutation cl (flat_map fst rs ++ acc) /\
             Permutation (abs_of log2 bf) (map snd rs) /\ wf log2 bf.
Proof. exact eb_cross_spec. Qed.
Print Assumptions C04_eratbig_buckets_refine.

(** ... and that loop, over the wheel-210 table of the source, clears exactly the multiples prime*q for the successive
    cofactors q coprime to 210 and leaves the state of the next multiple *)
Theorem C04_cross210_refines : forall fuel size low sp ri qi q i cl i' w',
  Inv210 low sp ri qi q i ->
  cross210 fuel size sp i (48 * ri + qi) = Some (cl, i', w') ->
  exists qe qie, spec_cross210 fuel low size (sprime sp ri) q = Some (cl, qe) /\
                 Inv210 (low + 30 * size) sp ri qie qe i' /\ w' = 48 * ri + qie.
Proof. exact cross210_refines. Qed.
Print Assumptions C04_cross210_refines.

Theorem C04_nextc210_spec : forall q, coprime210 q ->
  coprime210 (nextc210 q) /\ q < nextc210 q /\ forall x, q < x < nextc210 q -> ~ coprime210 x.
Proof. exact nextc210_spec. Qed.
Print Assumptions C04_nextc210_spec.

Theorem C04_cop210_gcd : forall q, coprime210 q <-> N.gcd (q mod 210) 210 = 1.
Proof. exact cop210_gcd. Qed.
Print Assumptions C04_cop210_gcd.

(** EratBig for one segment: with every big sieving prime in a correct, minimal state somewhere in the bucket lists,
    crossOff clears exactly the bits of the multiples prime*q', q' coprime to 210 from the prime's cofactor on, inside
    the segment, and leaves such a state (in some bucket list) for the next segment *)
From PS Require Import Proofs.KernelP Proofs.EratBigSegP Proofs.EratBigInitP Model.Wheel.
Theorem C04_eratbig_segment_spec : forall log2 low, low mod 30 = 0 ->
  forall fuel (b : buckets) (ws : list wstate) cl bf,
  wf log2 b -> Forall (w_ok210 low) ws -> Permutation (abs_of log2 b) (map w_state210 ws) ->
  eb_cross fuel log2 b [] = Some (cl, bf) ->
  (forall bb m, In (bb, m) cl <-> clears log2 low ws bb m) /\
  exists ws', Forall (w_ok210 (low + 30 * size log2)) ws' /\ map w_prime ws' = map w_prime ws /\
              Permutation (abs_of log2 bf) (map w_state210 ws') /\ wf log2 bf.
Proof. exact eratbig_segment_spec. Qed.
Print Assumptions C04_eratbig_segment_spec.

(** Wheel210::addSievingPrime produces such a state (and an index inside what storeSievingPrime's sizing covers) *)
Theorem C04_asp210_state_ok : forall stop p low mi wi,
  prime p -> 11 <= p -> p < 2 ^ 32 -> low mod 30 = 0 -> stop <= MAX64 -> low + 6 <= MAX64 ->
  addSievingPrime210 stop p low = Some (mi, wi) ->
  exists ri qi q, wi = 48 * ri + qi /\ sprime (p / 30) ri = p /\ w_ok210 low (p / 30, ri, qi, q, mi) /\ p * q <= stop /\
                  wi < 384 /\
                  (forall size, 1 <= size -> p * p <= low + 30 * size + 6 -> mi <= size - 1 + (p / 30 * 10 + 10)).
Proof. exact asp210_state_ok. Qed.
Print Assumptions C04_asp210_state_ok.

(** a segment sieved by wheel-30 algorithms for some primes and by EratBig (wheel 210) for the others: a number is
    crossed off or a multiple of 7 (pre-sieved) iff it is p*q for a sieving prime p and a cofactor q >= p coprime to
    30, or a multiple of 7 - i.e. EratBig together with the pre-sieve clears what the wheel-30 algorithms would *)
Theorem C04_segment_crossed_mix : forall low high stop pmin (sps30 sps210 : list (N * N)),
  (forall p q0, In (p, q0) sps30 -> prime p /\ 7 <= p /\ coprime30 q0 /\ p <= q0 /\
     (forall q, p <= q -> coprime30 q -> low + 7 <= p * q -> q0 <= q)) ->
  (forall p q0, In (p, q0) sps210 -> prime p /\ 7 <= p /\ coprime210 q0 /\ p <= q0 /\
     (forall q, p <= q -> coprime210 q -> low + 7 <= p * q -> q0 <= q)) ->
  (forall p q0, In (p, q0) sps30 \/ In (p, q0) sps210 -> pmin <= p) ->
  (forall p, prime p -> pmin <= p -> p * p <= high ->
     (exists q0, In (p, q0) sps30) \/ (exists q0, In (p, q0) sps210) \/
     (forall q, p <= q -> coprime30 q -> low + 7 <= p * q -> stop < p * q)) ->
  forall n, low + 7 <= n -> n <= high -> n <= stop ->
  (crossed sps30 n \/ crossed210 sps210 n \/ n mod 7 = 0 <-> bigfactor pmin n \/ n mod 7 = 0).
Proof. exact segment_crossed_mix. Qed.
Print Assumptions C04_segment_crossed_mix.

(** EratMedium: the 64 bucket lists (one per wheel index; every prime re-filed under its new wheel index after the segment)
    compute what the plain per-prime loop over the step table of crossOff_7 .. crossOff_31 computes, hence clear exactly the
    multiples prime*q', q' coprime to 30 from the prime's cofactor on, inside the segment *)
From PS Require Import Model.EratMediumM Proofs.EratMediumP.
Theorem C04_eratmedium_buckets_refine : forall fuel size b cl nb, length b = 64%nat -> em_cross fuel size b = Some (cl, nb) ->
  exists cls sts, cross_all fuel eratMediumSteps size (em_abs b) = Some (cls, sts) /\
                  Permutation cl cls /\ Permutation (em_abs nb) sts /\ length nb = 64%nat.
Proof. exact em_cross_spec. Qed.
Print Assumptions C04_eratmedium_buckets_refine.

Theorem C04_eratmedium_segment_spec : forall fuel low size (b : em_buckets) (ws : list wstate) cl nb,
  low mod 30 = 0 -> length b = 64%nat -> Forall (w_ok low) ws -> Permutation (em_abs b) (map w_state ws) ->
  em_cross fuel size b = Some (cl, nb) ->
  (forall bb m, In (bb, m) cl <-> exists x q', In x ws /\ w_q x <= q' /\ coprime30 q' /\ byteof low (w_prime x * q') < size /\
                                          bb = byteof low (w_prime x * q') /\ m = maskof (w_prime x * q')) /\
  exists ws', Forall (w_ok (low + 30 * size)) ws' /\ map w_prime ws' = map w_prime ws /\
              Permutation (em_abs nb) (map w_state ws') /\ length nb = 64%nat.
Proof. exact em_segment_spec. Qed.
Print Assumptions C04_eratmedium_segment_spec.

(** Erat's segment loop with its three cross-off algorithms (Model/Erat3M.v: sieving primes added when prime^2 <= segmentHigh
    and dispatched by maxEratSmall_ / maxEratMedium_ to EratSmall, EratMedium's 64 lists or EratBig's bucket lists; per segment
    eratSmall_.crossOff, eratMedium_.crossOff, eratBig_.crossOff): with the pre-sieve, after every segment a bit is still set
    iff its number is prime - for every split of the sieving primes, every sieve size and every interval *)
From Coq Require Import Sorted.
From PS Require Import Model.Erat3M Model.KernelPs Proofs.Erat3SegP Proofs.Erat3LoopP.
Theorem C04_erat3_kernel_spec : forall fuel stop maxSmall maxMedium log2 segs low pending result,
  stop <= MAX64 -> segs_ok3 stop low segs -> (nobig stop maxMedium 164 \/ szs_ok log2 segs) ->
  StronglySorted N.lt pending -> (forall p, In p pending <-> sp_ok3 stop 164 p) ->
  sieve_loop3 fuel stop maxSmall maxMedium log2 segs pending e3_init = Some result ->
  Forall (fun r : kseg * list (N * N) => let '(sg, cleared) := r in
            forall n, coprime30 n -> k_low sg + 7 <= n -> byteof (k_low sg) n < k_size sg -> 7 <= n -> n <= k_high sg ->
            (presieve_bit (k_low sg) n = true /\ ~ In (byteof (k_low sg) n, maskof n) cleared <-> prime n)) result.
Proof. exact erat3_kernel_spec. Qed.
Print Assumptions C04_erat3_kernel_spec.

(** the loop invariant behind it, for any lower bound pmin >= 31 of the sieving primes: what is cleared is a genuine
    multiple p*q of a sieving prime, and every such multiple is cleared or a multiple of 7 *)
Theorem C04_sieve_loop3_spec : forall stop maxSmall maxMedium log2 pmin, stop <= MAX64 -> 31 <= pmin ->
  forall fuel segs low pending s w result,
  segs_ok3 stop low segs -> (nobig stop maxMedium pmin \/ szs_ok log2 segs) -> st_ok log2 low s w -> (nobig stop maxMedium pmin -> e_big s = []) ->
  Forall (fun p => pmin <= p) (primes_of w) ->
  StronglySorted N.lt pending -> Forall (sp_ok3 stop pmin) pending ->
  (forall p, sp_ok3 stop pmin p -> In p (primes_of w) \/ In p pending \/ dead stop low p \/ dead210 stop low p) ->
  sieve_loop3 fuel stop maxSmall maxMedium log2 segs pending s = Some result ->
  Forall (seg_result3 pmin) result.
Proof. exact sieve_loop3_spec. Qed.
Print Assumptions C04_sieve_loop3_spec.

(** ... and over the segments, thresholds and sieve size the geometry model (Erat::init / initAlgorithms) computes: for every
    configuration and every interval, with the sieving primes 164 <= p <= sqrt(stop) in ascending order *)
From PS Require Import Model.Config Model.EratGeom Proofs.KernelTopP Proofs.Erat3TopP.
Theorem C04_erat3_model_correct : forall l1 maxKB start stop fuelg fuel l result,
  16 <= maxKB -> maxKB <= 8192 -> 7 <= start -> start <= stop -> stop <= MAX64 ->
  segments fuelg l1 maxKB start stop = Some l ->
  let a := initAlgorithms l1 maxKB start stop in
  sieve_loop3 fuel stop (a_maxSmall a) (a_maxMedium a) (N.log2 (a_sieveSize a)) (map to_kseg l)
              (primes_between 164 (N.sqrt stop)) e3_init = Some result ->
  Forall (fun r : kseg * list (N * N) => let '(sg, cleared) := r in
            forall n, coprime30 n -> k_low sg + 7 <= n -> byteof (k_low sg) n < k_size sg -> 7 <= n -> n <= k_high sg ->
            (presieve_bit (k_low sg) n = true /\ ~ In (byteof (k_low sg) n, maskof n) cleared <-> prime n)) result.
Proof. exact erat3_model_correct. Qed.
Print Assumptions C04_erat3_model_correct.

(** EratSmall processes the sieve array in L1-sized chunks, storing and reloading each sieving prime's state between chunks:
    for every prime, state, array size and chunk size this is the single loop over the whole array *)
From PS Require Import Proofs.ChunksP.
Theorem C04_cross_chunks_spec : forall steps l1 total, 1 <= l1 -> forall n fuel off sp i w cl i' w',
  off <= total -> cross_chunks n fuel steps l1 total off sp i w = Some (cl, i', w') ->
  exists fuel' cl0, cross fuel' steps (total - off) sp i w = Some (cl0, i', w') /\ cl = map (shift off) cl0.
Proof. exact cross_chunks_spec. Qed.
Print Assumptions C04_cross_chunks_spec.

(** ... and with enough fuel the three-algorithm model always returns: no per-prime loop or bucket loop runs forever and no
    store leaves buckets_, for every configuration and every interval *)
Theorem C04_erat3_model_total : forall l1 maxKB start stop fuelg l,
  16 <= maxKB -> maxKB <= 8192 -> 7 <= start -> start <= stop -> stop <= MAX64 ->
  segments fuelg l1 maxKB start stop = Some l ->
  let a := initAlgorithms l1 maxKB start stop in
  exists fuel, sieve_loop3 fuel stop (a_maxSmall a) (a_maxMedium a) (N.log2 (a_sieveSize a)) (map to_kseg l)
                           (primes_between 164 (N.sqrt stop)) e3_init <> None.
Proof. exact erat3_model_total. Qed.
Print Assumptions C04_erat3_model_total.

(** SievingPrimes::tinySieve (the table from which the generator of sieving primes takes its own sieving primes) is exact on
    the odd numbers: true iff prime, for every table size *)
From PS Require Import Model.SievingPrimesM Proofs.SievingPrimesP.
Theorem C04_tiny_sieve_spec : forall n m, m mod 2 = 1 -> 3 <= m -> m <= n -> (at_ (tiny_sieve n) m = true <-> prime m).
Proof. exact tiny_sieve_spec. Qed.
Print Assumptions C04_tiny_sieve_spec.

(** the self-contained three-algorithm kernel (outer kernel with the thresholds of initAlgorithms; its sieving primes from an
    inner kernel over [165, isqrt(stop)] fed by the tiny sieve, as SievingPrimes does; decoding of the surviving pre-sieved
    bits): exactly the primes of [start, stop], ascending, for every configuration and interval - no hypothesis left *)
From PS Require Import Model.Erat3Self Proofs.Erat3SelfP.
Theorem C04_erat3_self_spec : forall l1 maxKB, 16 <= maxKB -> maxKB <= 8192 ->
  forall s e, 7 <= s -> s <= e -> e <= MAX64 -> erat3_self l1 maxKB s e = primes_between s e.
Proof. exact erat3_self_spec. Qed.
Print Assumptions C04_erat3_self_spec.

Theorem C04_sieving_primes3_spec : forall l1 maxKB stop, 16 <= maxKB -> maxKB <= 8192 -> stop <= MAX64 ->
  sieving_primes3 l1 maxKB stop = primes_between 164 (N.sqrt stop).
Proof. exact sieving_primes3_spec. Qed.
Print Assumptions C04_sieving_primes3_spec.

(** count_primes over it (2, 3, 5 from the small table + the kernel on [max(start, 7), stop]) = pi(stop) - pi(start - 1) *)
Theorem C04_count_model_kernel3 : forall l1 maxKB, 16 <= maxKB -> maxKB <= 8192 ->
  forall start stop, stop <= MAX64 ->
  N.of_nat (length (sieve_model3 l1 maxKB start stop)) = count_primes_spec start stop.
Proof. exact count_model3_spec. Qed.
Print Assumptions C04_count_model_kernel3.

(** C04 - count_primes equals pi(stop) - pi(start - 1) exactly. *)
From Coq Require Import NArith List Bool.
From PS Require Import Spec.Primes Model.Tiling Proofs.TilingP Proofs.PrimeGenP Proofs.CountAddP.
Import ListNotations.
Local Open Scope N_scope.

(** counts are additive over adjacent intervals *)
Theorem C04_count_additive : forall a m b, a <= m + 1 -> m <= b ->
  count_primes_spec a b = count_primes_spec a m + count_primes_spec (m + 1) b.
Proof. exact count_additive. Qed.
Print Assumptions C04_count_additive.

(** PrimeSieve::sieve: 2, 3, 5 from the small table, the rest from the sieve on [max(start, 7), stop] *)
Theorem C04_small_primes_split : forall start stop,
  primes_between start stop = filter (fun p => (start <=? p) && (p <=? stop)) [2; 3; 5] ++ primes_between (N.max start 7) stop.
Proof. exact small_primes_split. Qed.
Print Assumptions C04_small_primes_split.

(** with several threads the counts of the pieces add up to the count of the interval *)
Theorem C04_tiling_counts : forall td start stop,
  1 <= td -> start <= stop -> stop < MAX64 ->
  concat (map (fun p => primes_between (fst p) (snd p)) (pieces td start stop)) = primes_between start stop.
Proof. exact tiling_counts. Qed.
Print Assumptions C04_tiling_counts.

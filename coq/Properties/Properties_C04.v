(** C04 - count_primes equals pi(stop) - pi(start - 1) exactly. *)
From Coq Require Import NArith List Bool.
From PS Require Import Spec.Primes Model.Tiling Model.Config Model.EratGeom Proofs.TilingP Proofs.PrimeGenP Proofs.CountAddP Proofs.EratGeomP.
Import ListNotations.
Local Open Scope N_scope.

(** counts are additive over adjacent intervals *)
Theorem C04_count_additive : forall a m b, a <= m + 1 -> m <= b ->
  count_primes_spec a b = count_primes_spec a m + count_primes_spec (m + 1) b.
Proof. exact count_additive. Qed.
Print Assumptions C04_count_additive.

(** PrimeSieve::sieve: 2, 3, 5 from the small table, the rest from the sieve on [max(start, 7), stop] *)
Theorem C04_small_primes_split : forall start stop,
  primes_between start stop = filter (fun p => (start <=? p) && (p <=? stop)) [2; 3; 5] ++ primes_between (N.max start 7) stop.
Proof. exact small_primes_split. Qed.
Print Assumptions C04_small_primes_split.

(** with several threads the counts of the pieces add up to the count of the interval *)
Theorem C04_tiling_counts : forall td start stop,
  1 <= td -> start <= stop -> stop < MAX64 ->
  concat (map (fun p => primes_between (fst p) (snd p)) (pieces td start stop)) = primes_between start stop.
Proof. exact tiling_counts. Qed.
Print Assumptions C04_tiling_counts.

(** the kernel's surroundings: for every L1 size, sieve-size setting and interval, the segments Erat sieves
    are well formed: bases = 0 (mod 30) and adjacent, every full segment has segmentHigh = base + 30*bytes + 6
    < stop (all its numbers are <= segmentHigh), the last segment's size is computed without underflow and ends
    in the byte of stop, the first segment contains start in its first byte; and the loop terminates *)
Theorem C04_segments_ok : forall l1 maxKB start stop fuel l,
  16 <= maxKB -> maxKB <= 8192 -> 7 <= start -> start <= stop -> stop <= MAX64 ->
  segments fuel l1 maxKB start stop = Some l ->
  l <> [] /\ Forall (seg_ok stop) l /\ adjacent l /\
  let low0 := s_low (hd {| s_low := 0; s_high := 0; s_bytes := 0; s_last := false |} l) in
  low0 mod 30 = 0 /\ low0 + 7 <= start /\ start <= low0 + 36.
Proof. exact segments_ok. Qed.
Print Assumptions C04_segments_ok.

Theorem C04_segments_terminate : forall stop, stop <= MAX64 -> forall fuel low high size,
  geom_inv stop low high size ->
  (N.to_nat ((stop - low) / (30 * size)) + 2 <= fuel)%nat ->
  segments_loop fuel stop low high size <> None.
Proof. exact segments_loop_total. Qed.
Print Assumptions C04_segments_terminate.

(** the cross-off step tables of the three sieving algorithms, as extracted from the current source, are
    exact (every entry clears the bit of the current multiple and moves to the next wheel multiple) *)
From PS Require Import Gen.Tables Proofs.WheelStepsP.
Theorem C04_step_tables_ok :
  steps30_ok eratSmallSteps = true /\ steps30_ok eratMediumSteps = true /\ steps210_ok eratBigWheel = true /\ unrolled_ok = true.
Proof. exact (conj eratSmallSteps_ok (conj eratMediumSteps_ok (conj eratBigWheel_ok eratSmallUnrolled_ok))). Qed.
Print Assumptions C04_step_tables_ok.
Theorem C04_step_lift : forall low i sp r o gap c o',
  o + gap * r = 30 * c + o' ->
  (low + 30 * i + o) + gap * (30 * sp + r) = low + 30 * (i + gap * sp + c) + o'.
Proof. exact step_lift. Qed.
Print Assumptions C04_step_lift.

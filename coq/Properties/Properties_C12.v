(** C12 - no undefined behaviour: the bounds obligations that are expressible in the model. *)
From Coq Require Import NArith ZArith List Bool.
From PS Require Import Spec.Primes Spec.Cursor Gen.Tables Model.PrimeGen Model.Mem Model.Calc Model.Iterator
     Proofs.MemP Proofs.CalcP Proofs.TablesP Proofs.BoundsP.
Import ListNotations.
Local Open Scope N_scope.

(** a round of fillNextPrimes that is allowed to start (i <= size - 64) writes only inside the buffer *)
Theorem C12_fill_round_in_bounds : forall i cap, 64 <= cap -> fill_may_continue i cap = true -> i + 63 < cap.
Proof. exact fill_round_in_bounds. Qed.
Print Assumptions C12_fill_round_in_bounds.

(** the forward buffer always has those 64 free slots when the sieve is going to run *)
Theorem C12_buffer_slack : forall pcu start stop,
  let '(cap, size) := next_buffer pcu start stop in
  cap <= 1024 /\ size <= cap /\ (maxCachedPrime + 2 <= stop -> size + 64 <= cap).
Proof. exact next_buffer_bounds. Qed.
Print Assumptions C12_buffer_slack.

(** indices into the source tables stay inside them: byteRemainder in [7, 36] < 37 = |unsetSmaller| = |unsetLarger|;
    q mod 30 / q mod 210 index the wheel init tables; primePi is indexed below 720; bit indices <= 64 index bitValues[65] *)
Theorem C12_table_indices_in_range :
  (forall n, 7 <= n -> 7 <= (n - 7) mod 30 + 7 < N.of_nat (length unsetSmaller) /\ (n - 7) mod 30 + 7 < N.of_nat (length unsetLarger)) /\
  (forall q, q mod 30 < N.of_nat (length wheel30Init) /\ q mod 210 < N.of_nat (length wheel210Init)) /\
  (forall s, 1 < s -> s <= 719 -> s - 1 < N.of_nat (length primePi)) /\
  (forall s, s < 719 -> s < N.of_nat (length primePi)) /\
  length bitValues = 65%nat.
Proof. exact table_indices_in_range. Qed.
Print Assumptions C12_table_indices_in_range.

(** every arithmetic result of the command-line calculator lies in the range of its C++ type (no signed overflow) *)
Theorem C12_checked_arith_in_range : forall ty k x y r,
  In k [OAdd; OSub; OMul; ODiv; OShl] -> a_bin (checked ty) k x y = Some r -> in_range ty r = true.
Proof. exact checked_arith_in_range. Qed.
Print Assumptions C12_checked_arith_in_range.

(** in every reachable state of the iterator the index of the value returned last is inside the buffer *)
Theorem C12_iterator_index_in_range : forall it c, Proofs.IteratorP.R it c -> it_buf it <> [] -> (it_i it < length (it_buf it))%nat.
Proof. exact iterator_index_in_range. Qed.
Print Assumptions C12_iterator_index_in_range.

(** EratBig (bucket sieve, wheel 210): a write through buckets_[segment] always has segment < buckets_.size() - when a
    sieving prime is stored (its multiple index is at most one wheel step, prime/30 * getMaxFactor() + getMaxFactor(),
    beyond the segment) and for every step of crossOff, for every sieve size 2^log2, every sieving prime and every state;
    [None] of the model is the out-of-bounds write. *)
From Coq Require Import Permutation.
From PS Require Import Model.EratBigM Proofs.EratBigP.
Theorem C12_eratbig_store_in_bounds : forall log2 b prime idx w, wf log2 b -> 30 <= prime -> w < 384 ->
  idx <= size log2 - 1 + (prime / 30 * 10 + 10) ->
  exists b', eb_store log2 b prime idx w = Some b' /\ wf log2 b' /\
             Permutation (abs_of log2 b') ((prime / 30, idx, w) :: abs_of log2 b).
Proof. exact eb_store_ok. Qed.
Print Assumptions C12_eratbig_store_in_bounds.

Theorem C12_eratbig_cross_in_bounds : forall log2 e es rest, wf log2 ((e :: es) :: rest) ->
  let '(cl, (seg, e')) := eb_step log2 e in
  exists b', push_at (N.to_nat seg) e' (es :: rest) = Some b' /\ wf log2 b'.
Proof. exact eb_push_ok. Qed.
Print Assumptions C12_eratbig_cross_in_bounds.

(** ... and crossOff terminates (every step moves a sieving prime forward) *)
Theorem C12_eratbig_cross_total : forall log2 n b acc, wf log2 b -> b <> [] -> (N.to_nat (mu log2 b) < n)%nat ->
  exists cl b', eb_cross n log2 b acc = Some (cl, b').
Proof. exact eb_cross_total. Qed.
Print Assumptions C12_eratbig_cross_total.

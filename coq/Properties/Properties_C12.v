(** C12 - no undefined behaviour: the bounds obligations that are expressible in the model. *)
From Coq Require Import NArith ZArith List Bool.
From PS Require Import Spec.Primes Spec.Cursor Gen.Tables Model.PrimeGen Model.Mem Model.Calc Model.Iterator
     Proofs.MemP Proofs.CalcP Proofs.TablesP Proofs.BoundsP.
Import ListNotations.
Local Open Scope N_scope.

(** a round of fillNextPrimes that is allowed to start (i <= size - 64) writes only inside the buffer *)
Theorem C12_fill_round_in_bounds : forall i cap, 64 <= cap -> fill_may_continue i cap = true -> i + 63 < cap.
Proof. exact fill_round_in_bounds. Qed.
Print Assumptions C12_fill_round_in_bounds.

(** the forward buffer always has those 64 free slots when the sieve is going to run *)
Theorem C12_buffer_slack : forall pcu start stop,
  let '(cap, size) := next_buffer pcu start stop in
  cap <= 1024 /\ size <= cap /\ (maxCachedPrime + 2 <= stop -> size + 64 <= cap).
Proof. exact next_buffer_bounds. Qed.
Print Assumptions C12_buffer_slack.

(** indices into the source tables stay inside them: byteRemainder in [7, 36] < 37 = |unsetSmaller| = |unsetLarger|;
    q mod 30 / q mod 210 index the wheel init tables; primePi is indexed below 720; bit indices <= 64 index bitValues[65] *)
Theorem C12_table_indices_in_range :
  (forall n, 7 <= n -> 7 <= (n - 7) mod 30 + 7 < N.of_nat (length unsetSmaller) /\ (n - 7) mod 30 + 7 < N.of_nat (length unsetLarger)) /\
  (forall q, q mod 30 < N.of_nat (length wheel30Init) /\ q mod 210 < N.of_nat (length wheel210Init)) /\
  (forall s, 1 < s -> s <= 719 -> s - 1 < N.of_nat (length primePi)) /\
  (forall s, s < 719 -> s < N.of_nat (length primePi)) /\
  length bitValues = 65%nat.
Proof. exact table_indices_in_range. Qed.
Print Assumptions C12_table_indices_in_range.

(** every arithmetic result of the command-line calculator lies in the range of its C++ type (no signed overflow) *)
Theorem C12_checked_arith_in_range : forall ty k x y r,
  In k [OAdd; OSub; OMul; ODiv; OShl] -> a_bin (checked ty) k x y = Some r -> in_range ty r = true.
Proof. exact checked_arith_in_range. Qed.
Print Assumptions C12_checked_arith_in_range.

(** in every reachable state of the iterator the index of the value returned last is inside the buffer *)
Theorem C12_iterator_index_in_range : forall it c, Proofs.IteratorP.R it c -> it_buf it <> [] -> (it_i it < length (it_buf it))%nat.
Proof. exact iterator_index_in_range. Qed.
Print Assumptions C12_iterator_index_in_range.

(** EratBig (bucket sieve, wheel 210): a write through buckets_[segment] always has segment < buckets_.size() - when a
    sieving prime is stored (its multiple index is at most one wheel step, prime/30 * getMaxFactor() + getMaxFactor(),
    beyond the segment) and for every step of crossOff, for every sieve size 2^log2, every sieving prime and every state;
    [None] of the model is the out-of-bounds write. *)
From Coq Require Import Permutation.
From PS Require Import Model.EratBigM Proofs.EratBigP.
Theorem C12_eratbig_store_in_bounds : forall log2 b prime idx w, wf log2 b -> 30 <= prime -> w < 384 ->
  idx <= size log2 - 1 + (prime / 30 * 10 + 10) ->
  exists b', eb_store log2 b prime idx w = Some b' /\ wf log2 b' /\
             Permutation (abs_of log2 b') ((prime / 30, idx, w) :: abs_of log2 b).
Proof. exact eb_store_ok. Qed.
Print Assumptions C12_eratbig_store_in_bounds.

Theorem C12_eratbig_cross_in_bounds : forall log2 e es rest, wf log2 ((e :: es) :: rest) ->
  let '(cl, (seg, e')) := eb_step log2 e in
  exists b', push_at (N.to_nat seg) e' (es :: rest) = Some b' /\ wf log2 b'.
Proof. exact eb_push_ok. Qed.
Print Assumptions C12_eratbig_cross_in_bounds.

(** ... and crossOff terminates (every step moves a sieving prime forward) *)
Theorem C12_eratbig_cross_total : forall log2 n b acc, wf log2 b -> b <> [] -> (N.to_nat (mu log2 b) < n)%nat ->
  exists cl b', eb_cross n log2 b acc = Some (cl, b').
Proof. exact eb_cross_total. Qed.
Print Assumptions C12_eratbig_cross_total.

(** ... in particular for every state Wheel210::addSievingPrime hands over, when the prime is added no later than in the
    segment containing its square (Erat adds a sieving prime when prime^2 <= segmentHigh) *)
From PS Require Import Spec.Primes Model.Wheel Proofs.EratBigInitP.
Theorem C12_eratbig_asp_store_in_bounds : forall log2 b stop p low mi wi,
  wf log2 b -> prime p -> 31 <= p -> p < 2 ^ 32 -> low mod 30 = 0 -> stop <= MAX64 -> low + 6 <= MAX64 ->
  p * p <= low + 30 * 2 ^ log2 + 6 ->
  addSievingPrime210 stop p low = Some (mi, wi) ->
  exists b', eb_store log2 b p mi wi = Some b' /\ wf log2 b'.
Proof. exact asp210_store_ok. Qed.
Print Assumptions C12_eratbig_asp_store_in_bounds.

(** EratMedium: a store through buckets_[wheelIndex] always has wheelIndex < 64 = buckets_.size(): when a prime is stored with
    a wheel index below 64, and after every per-prime loop (the machine can only fail by a per-prime loop running out of fuel) *)
From PS Require Import Model.CrossOff Model.EratMediumM Proofs.EratMediumP.
Theorem C12_eratmedium_store_in_bounds : forall b prime idx w, (b = [] \/ length b = 64%nat) -> w < 64 ->
  exists b', em_store b prime idx w = Some b' /\ length b' = 64%nat /\
             Permutation (em_abs b') ((prime / 30, idx, w) :: em_abs b).
Proof. exact em_store_ok. Qed.
Print Assumptions C12_eratmedium_store_in_bounds.

Theorem C12_eratmedium_cross_in_bounds : forall fuel size b, length b = 64%nat ->
  (forall sp i w, In (sp, i, w) (em_abs b) -> cross fuel eratMediumSteps size sp i w <> None) ->
  exists cl nb, em_cross fuel size b = Some (cl, nb).
Proof. exact em_cross_safe. Qed.
Print Assumptions C12_eratmedium_cross_in_bounds.

(** SievingPrime packs (multipleIndex, wheelIndex) into 23 + 9 bits: lossless on the asserted ranges ... *)
From PS Require Import Model.Config Model.BucketM Proofs.BucketP Proofs.TablesP.
Theorem C12_sievingprime_pack_roundtrip : forall mi wi, mi <= MAX_MULTIPLEINDEX -> wi <= MAX_WHEELINDEX ->
  sp_mi (sp_pack mi wi) = mi /\ sp_wi (sp_pack mi wi) = wi.
Proof. exact pack_roundtrip. Qed.
Print Assumptions C12_sievingprime_pack_roundtrip.

(** ... and every index the wheel-30 loops of EratSmall / EratMedium store is in that range, for every configuration: the
    loop leaves at most 6 * sievingPrime + 6, and 6 * (maxEratMedium_ / 30) + 6 <= MAX_MULTIPLEINDEX (EratBig stores
    index mod sieveSize with sieveSize <= 2^23) *)
Theorem C12_cross_index_bound : forall steps, forallb (step_small steps) (Nseq 64) = true ->
  forall fuel size sp i w cl i' w',
  w < 64 -> i <= size + (6 * sp + 6) -> cross fuel steps size sp i w = Some (cl, i', w') -> i' <= 6 * sp + 6 /\ w' < 64.
Proof. exact cross_index_bound. Qed.
Print Assumptions C12_cross_index_bound.

Theorem C12_step_tables_small : forallb (step_small eratSmallSteps) (Nseq 64) = true /\ forallb (step_small eratMediumSteps) (Nseq 64) = true.
Proof. exact (conj eratSmallSteps_small eratMediumSteps_small). Qed.
Print Assumptions C12_step_tables_small.

Theorem C12_medium_index_fits : forall l1 maxKB start stop,
  6 * (a_maxMedium (initAlgorithms l1 maxKB start stop) / 30) + 6 <= MAX_MULTIPLEINDEX.
Proof. exact medium_index_fits. Qed.
Print Assumptions C12_medium_index_fits.

(** in the three-algorithm loop no store of a sieving prime ever fails (= writes outside buckets_ of EratMedium or EratBig),
    for every state reachable in the loop, every sieving prime added no later than in the segment containing its square *)
From PS Require Import Model.Erat3M Proofs.Erat3LoopP.
Theorem C12_erat3_stores_in_bounds : forall stop maxSmall maxMedium log2 pmin, stop <= MAX64 -> 31 <= pmin ->
  forall low s w p, low mod 30 = 0 -> low + 6 <= MAX64 -> st_ok log2 low s w -> sp_ok3 stop pmin p ->
  (maxMedium < p -> p * p <= low + 30 * size log2 + 6) ->
  exists s1, add_prime3 stop low maxSmall maxMedium log2 s p = Some s1.
Proof. exact add_prime3_total. Qed.
Print Assumptions C12_erat3_stores_in_bounds.

(** SievingPrimes::sieveSegment reads tinySieve_[i] only where the table exists and inside it: for start <= i with
    i * i <= segmentHigh <= stop the guard start * start <= stop of init() holds and i <= isqrt(stop) = size - 1 *)
From PS Require Import Model.SievingPrimesM Proofs.SievingPrimesP.
Theorem C12_tiny_read_in_range : forall start stop high i, start <= i -> i * i <= high -> high <= stop ->
  tiny_built start stop = true /\ (N.to_nat i < length (tiny_sieve (N.sqrt stop)))%nat.
Proof. exact tiny_read_in_range. Qed.
Print Assumptions C12_tiny_read_in_range.

(** C12 - no undefined behaviour: the bounds obligations that are expressible in the model. *)
From Coq Require Import NArith ZArith List Bool.
From PS Require Import Spec.Primes Spec.Cursor Gen.Tables Model.PrimeGen Model.Mem Model.Calc Model.Iterator
     Proofs.MemP Proofs.CalcP Proofs.TablesP Proofs.BoundsP.
Import ListNotations.
Local Open Scope N_scope.

(** a round of fillNextPrimes that is allowed to start (i <= size - 64) writes only inside the buffer *)
Theorem C12_fill_round_in_bounds : forall i cap, 64 <= cap -> fill_may_continue i cap = true -> i + 63 < cap.
Proof. exact fill_round_in_bounds. Qed.
Print Assumptions C12_fill_round_in_bounds.

(** the forward buffer always has those 64 free slots when the sieve is going to run *)
Theorem C12_buffer_slack : forall pcu start stop,
  let '(cap, size) := next_buffer pcu start stop in
  cap <= 1024 /\ size <= cap /\ (maxCachedPrime + 2 <= stop -> size + 64 <= cap).
Proof. exact next_buffer_bounds. Qed.
Print Assumptions C12_buffer_slack.

(** indices into the source tables stay inside them: byteRemainder in [7, 36] < 37 = |unsetSmaller| = |unsetLarger|;
    q mod 30 / q mod 210 index the wheel init tables; primePi is indexed below 720; bit indices <= 64 index bitValues[65] *)
Theorem C12_table_indices_in_range :
  (forall n, 7 <= n -> 7 <= (n - 7) mod 30 + 7 < N.of_nat (length unsetSmaller) /\ (n - 7) mod 30 + 7 < N.of_nat (length unsetLarger)) /\
  (forall q, q mod 30 < N.of_nat (length wheel30Init) /\ q mod 210 < N.of_nat (length wheel210Init)) /\
  (forall s, 1 < s -> s <= 719 -> s - 1 < N.of_nat (length primePi)) /\
  (forall s, s < 719 -> s < N.of_nat (length primePi)) /\
  length bitValues = 65%nat.
Proof. exact table_indices_in_range. Qed.
Print Assumptions C12_table_indices_in_range.

(** every arithmetic result of the command-line calculator lies in the range of its C++ type (no signed overflow) *)
Theorem C12_checked_arith_in_range : forall ty k x y r,
  In k [OAdd; OSub; OMul; ODiv; OShl] -> a_bin (checked ty) k x y = Some r -> in_range ty r = true.
Proof. exact checked_arith_in_range. Qed.
Print Assumptions C12_checked_arith_in_range.

(** in every reachable state of the iterator the index of the value returned last is inside the buffer *)
Theorem C12_iterator_index_in_range : forall it c, Proofs.IteratorP.R it c -> it_buf it <> [] -> (it_i it < length (it_buf it))%nat.
Proof. exact iterator_index_in_range. Qed.
Print Assumptions C12_iterator_index_in_range.

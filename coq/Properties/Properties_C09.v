(** C09 - Parallel sieving tiles the interval exactly, splits no k-tuplet, and
    every schedule of the workers gives the same total. *)
From Coq Require Import NArith List.
From PS Require Import Spec.Primes Model.Tiling Model.Sched Proofs.TilingP Proofs.SchedP.
Import ListNotations.
Local Open Scope N_scope.

(** for every thread distance td >= 1 and every start <= stop < 2^64-1 the pieces
    computed by the workers (explicit uint64 wrap-around in the model) follow each
    other without gap or overlap from start to stop *)
Theorem C09_tiling_exact : forall td start stop,
  1 <= td -> start <= stop -> stop < MAX64 -> chain start (pieces td start stop) stop.
Proof. exact tiling_exact. Qed.
Print Assumptions C09_tiling_exact.

(** hence the primes (and counts) of the pieces add up to those of the interval *)
Theorem C09_tiling_counts : forall td start stop,
  1 <= td -> start <= stop -> stop < MAX64 ->
  concat (map (fun p => primes_between (fst p) (snd p)) (pieces td start stop)) = primes_between start stop.
Proof. exact tiling_counts. Qed.
Print Assumptions C09_tiling_counts.

(** no interior boundary separates the numbers 30j+7 .. 30j+31 of one sieve byte (all
    members of a k-tuplet with least member >= 7 lie in one byte: C05 mask lemma), and
    every interior boundary is >= 32, above the small k-tuplets (members <= 17) *)
Theorem C09_no_split : forall td start stop p,
  1 <= td -> start <= stop -> stop < MAX64 ->
  In p (pieces td start stop) -> snd p < stop ->
  32 <= snd p /\ forall j, ~ (30 * j + 7 <= snd p /\ snd p < 30 * j + 31).
Proof. exact no_split. Qed.
Print Assumptions C09_no_split.

(** every interleaving of the workers' fetch_add operations: as soon as one worker has
    left its loop, the local sums add up to the sum over all pieces *)
Theorem C09_schedule_irrelevant : forall iters f workers sch,
  let s := sched_run iters f sch (init_state workers) in
  (exists w, (w < workers)%nat /\ nth w (finished s) true = true) ->
  total s = sum_f f iters.
Proof. exact schedule_irrelevant. Qed.
Print Assumptions C09_schedule_irrelevant.

(** C11 - the C API equals the C++ API and obeys its error contract. *)
From Coq Require Import NArith List Bool.
From PS Require Import Spec.Primes Model.Pmath Model.Iterator Model.CApi Proofs.IteratorP Proofs.CApiP.
Import ListNotations.
Local Open Scope N_scope.

(** uint64-valued wrappers: success returns the C++ value and leaves errno alone; any exception gives
    PRIMESIEVE_ERROR and errno = EDOM *)
Theorem C11_wrapper_contract_u64 : forall r errno,
  match r with
  | Returns v => wrap_u64 r errno = (v, errno)
  | Throws => wrap_u64 r errno = (PRIMESIEVE_ERROR, EDOM)
  end.
Proof. exact wrap_u64_contract. Qed.
Print Assumptions C11_wrapper_contract_u64.

(** array-valued wrappers: exactly size elements, NULL + size 0 for an empty result (errno untouched),
    NULL + size 0 + EDOM on any exception *)
Theorem C11_wrapper_contract_array : forall r errno,
  match r with
  | Returns l => wrap_array r errno = ((if l then None else Some l), N.of_nat (length l), errno)
  | Throws => wrap_array r errno = (None, 0, EDOM)
  end.
Proof. exact wrap_array_contract. Qed.
Print Assumptions C11_wrapper_contract_array.

Theorem C11_null_means_empty : forall r errno p s e,
  errno <> EDOM -> wrap_array r errno = (p, s, e) -> p = None -> e <> EDOM -> r = Returns [].
Proof. exact null_means_empty. Qed.
Print Assumptions C11_null_means_empty.

Theorem C11_invalid_type_code : forall code, 14 <= code -> type_max code = None.
Proof. exact type_max_invalid. Qed.
Print Assumptions C11_invalid_type_code.

(** the iterator's error state is absorbing for primesieve_next_prime: every further call returns
    PRIMESIEVE_ERROR (for every heuristic, block layout, and k) *)
Theorem C11_error_sticky : forall nextDist maxGap kernel cut,
  (forall a b, a <= b -> b <= MAX64 -> kernel a b = primes_between a b) ->
  (forall l, concat (cut l) = l /\ Forall nonempty (cut l)) ->
  forall fuel k, (1 <= fuel)%nat ->
  c_next_n nextDist maxGap kernel cut fuel k {| ci := error_iter; ci_error := true |} =
    Done ({| ci := error_iter; ci_error := true |}, repeat PRIMESIEVE_ERROR k).
Proof. exact error_sticky. Qed.
Print Assumptions C11_error_sticky.

Theorem C11_error_entered : forall nextDist maxGap kernel cut fuel c c' v,
  c_next_prime nextDist maxGap kernel cut fuel c = Done (c', v) ->
  ci_error c' = true -> ci_error c = false -> c' = {| ci := error_iter; ci_error := true |} /\ v = PRIMESIEVE_ERROR.
Proof. exact error_entered. Qed.
Print Assumptions C11_error_entered.

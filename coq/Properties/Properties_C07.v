(** C07 - nth_prime(n, start) returns exactly the documented prime or fails. *)
From Coq Require Import ZArith NArith List.
From PS Require Import Spec.Primes Model.NthPrime Proofs.NthPrimeP.
Local Open Scope N_scope.

(** For every int64 n with |n| <= 425656284035217743, every start < 2^64 and EVERY choice of the
    approximation functions (primePiApprox, nthPrimeApprox; avgPrimeGap only sizes a stop_hint):
    the model of PrimeSieve::nthPrime / negativeNthPrime returns the documented prime
    (n = 0: 1st prime >= start; n > 0: n-th prime > start; n < 0: |n|-th prime < start)
    and throws exactly when that prime does not exist below 2^64.  The counting function and the
    iterator walks are the specifications established by C04 / C01 / C02. *)
Theorem C07_nth_prime_correct :
  forall primePiApprox nthPrimeApprox cnt fwd bwd,
  (forall x, nthPrimeApprox x <= MAX64) ->
  (forall a b, b <= MAX64 -> cnt a b = N.of_nat (length (primes_between a b))) ->
  (forall s k, s <= MAX64 -> 1 <= k -> fwd s k = nth_error (primes_between s MAX64) (N.to_nat (k - 1))) ->
  (forall s k, s <= MAX64 -> 1 <= k -> bwd s k = nth (N.to_nat (k - 1)) (rev (primes_between 0 s)) 0) ->
  forall n start, start <= MAX64 -> (Z.abs n <= Z.of_N max_n)%Z ->
  nth_prime primePiApprox nthPrimeApprox cnt fwd bwd n start = of_opt (nth_spec n start).
Proof. exact nth_prime_correct. Qed.
Print Assumptions C07_nth_prime_correct.

(** |n| above the code's constant for pi(2^64) (in particular n = INT64_MIN): always an error *)
Theorem C07_nth_prime_large :
  forall primePiApprox nthPrimeApprox cnt fwd bwd,
  (forall a b, b <= MAX64 -> cnt a b = N.of_nat (length (primes_between a b))) ->
  (forall s k, s <= MAX64 -> 1 <= k -> fwd s k = nth_error (primes_between s MAX64) (N.to_nat (k - 1))) ->
  (forall s k, s <= MAX64 -> 1 <= k -> bwd s k = nth (N.to_nat (k - 1)) (rev (primes_between 0 s)) 0) ->
  forall n start, start <= MAX64 -> (Z.of_N max_n < Z.abs n)%Z ->
  nth_prime primePiApprox nthPrimeApprox cnt fwd bwd n start = NThrow.
Proof. exact nth_prime_large. Qed.
Print Assumptions C07_nth_prime_large.

(** the same with every source of primes taken from the model kernel (Properties_C04: C04_erat_self_spec): the count
    and the forward / backward walks are lists produced by the kernel model; no hypothesis about the sieve is left.
    (The walks are taken from the kernel's list, not from a run of the iterator model.) *)
From PS Require Import Proofs.KernelInstP.
Theorem C07_nth_prime_model_kernel : forall l1 maxKB, 16 <= maxKB -> maxKB <= 8192 ->
  forall primePiApprox nthPrimeApprox, (forall x, nthPrimeApprox x <= MAX64) ->
  forall n start, start <= MAX64 -> (Z.abs n <= Z.of_N max_n)%Z ->
  nth_prime primePiApprox nthPrimeApprox (cnt_model l1 maxKB) (fwd_model l1 maxKB) (bwd_model l1 maxKB) n start = of_opt (nth_spec n start).
Proof. exact nth_prime_model. Qed.
Print Assumptions C07_nth_prime_model_kernel.

(** C06 - generate_primes / generate_n_primes store exactly the requested primes. *)
From Coq Require Import NArith List Bool.
From PS Require Import Spec.Primes Model.Store Proofs.StoreP.
Import ListNotations.
Local Open Scope N_scope.

(** store_primes over the blocks delivered by the iterator (C01: blocks_of): appends exactly the primes of
    [start, stop] after the old contents, does nothing for an empty request, and throws with the vector
    untouched iff stop exceeds the element type's maximum (the code's rejection rule).
    [largest_prime_hyp] (18446744073709551557 is the largest prime below 2^64) is a visible hypothesis. *)
Theorem C06_store_primes_spec : forall maxV start stop blocks v0,
  largest_prime_hyp -> blocks_of start blocks -> start <= MAX64 -> stop <= MAX64 ->
  store_primes maxV start stop blocks v0 =
    if (start <=? stop) && (start <=? MAXPRIME64) && (maxV <? stop) then SThrow v0
    else SOk (v0 ++ primes_between start stop).
Proof. exact store_primes_spec. Qed.
Print Assumptions C06_store_primes_spec.

Theorem C06_store_primes_no_truncation : forall maxV start stop blocks v0 v,
  largest_prime_hyp -> blocks_of start blocks -> start <= MAX64 -> stop <= MAX64 ->
  store_primes maxV start stop blocks v0 = SOk v -> exists l, v = v0 ++ l /\ Forall (fun x => x <= maxV) l.
Proof. exact store_primes_no_truncation. Qed.
Print Assumptions C06_store_primes_no_truncation.

(** store_n_primes: success with exactly the first n primes >= start when they exist and the n-th fits the
    type; otherwise a throw after an exact prefix; never undefined behaviour *)
Theorem C06_store_n_primes_spec : forall maxV n start blocks v0,
  blocks_of start blocks ->
  let P := primes_between start MAX64 in
  ((n <= length P)%nat -> (n = 0%nat \/ nth (n - 1) P 0 <= maxV) ->
     store_n_primes maxV n blocks v0 = SOk (v0 ++ firstn n P)) /\
  match store_n_primes maxV n blocks v0 with
  | SOk w => w = v0 ++ firstn n P
  | SThrow w => exists k, (k < n)%nat /\ w = v0 ++ firstn k P
  | SCrash => False
  end.
Proof. exact store_n_primes_spec. Qed.
Print Assumptions C06_store_n_primes_spec.

(** the same with the blocks cut (by any block layout) from what the model kernel delivers (Properties_C04):
    no hypothesis about the iterator or the sieve is left, only [largest_prime_hyp] *)
From PS Require Import Model.CrossOff Proofs.IteratorCor Proofs.KernelInstP.
Theorem C06_store_primes_model_kernel : forall l1 maxKB cut maxV start stop v0,
  16 <= maxKB -> maxKB <= 8192 -> cut_spec cut ->
  largest_prime_hyp -> start <= MAX64 -> stop <= MAX64 ->
  store_primes maxV start stop (cut (sieve_model l1 maxKB start MAX64)) v0 =
    if (start <=? stop) && (start <=? MAXPRIME64) && (maxV <? stop) then SThrow v0
    else SOk (v0 ++ primes_between start stop).
Proof. exact store_primes_model. Qed.
Print Assumptions C06_store_primes_model_kernel.

(** ... and with the primality certificate for 18446744073709551557 (Properties_C10): no hypothesis left at all *)
From PS Require Import Proofs.TopFinalP.
Theorem C06_store_primes_final : forall l1 maxKB cut maxV start stop v0,
  16 <= maxKB -> maxKB <= 8192 -> cut_spec cut -> start <= MAX64 -> stop <= MAX64 ->
  store_primes maxV start stop (cut (sieve_model l1 maxKB start MAX64)) v0 =
    if (start <=? stop) && (start <=? MAXPRIME64) && (maxV <? stop) then SThrow v0
    else SOk (v0 ++ primes_between start stop).
Proof. exact store_primes_final. Qed.
Print Assumptions C06_store_primes_final.

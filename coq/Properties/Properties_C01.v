(** C01 - Forward iteration yields exactly the primes >= start, in order. *)
From Coq Require Import NArith List.
From PS Require Import Spec.Primes Spec.Cursor Model.Iterator Model.PrimeGen Proofs.IteratorP Proofs.CursorP Proofs.PrimeGenP Proofs.IteratorCor.
Import ListNotations.
Local Open Scope N_scope.

(** k calls of next_prime on an iterator positioned at s (any stop_hint h, any
    heuristics, any block layout) return the first k primes >= s that are
    < 2^64, ascending, and afterwards an error on every call.  The generator is the
    PrimeGenerator model: cached-prime tables (proved from the source tables)
    plus the sieve proper above 720, whose exactness [erat_spec] is the
    visible hypothesis of this theorem (kernel theorem, see DESIGN 2.2). *)
Theorem C01_next_calls_spec :
  forall nextDist prevDist maxGap erat cut, erat_spec erat -> cut_spec cut ->
  forall fuel s h k it' rs,
    s <= MAX64 ->
    run nextDist prevDist maxGap (pg_primes erat) cut fuel (fresh_iter s h) (repeat Next k) = Done (it', rs) ->
    let P := primes_between s MAX64 in
    rs = map Val (firstn k P) ++ repeat Err (k - length P).
Proof. exact next_calls_spec_pg. Qed.
Print Assumptions C01_next_calls_spec.

Theorem C01_every_call_returns :
  forall nextDist prevDist maxGap erat cut, erat_spec erat -> cut_spec cut ->
  forall os it c, R it c -> Forall op_ok os ->
    exists it' rs, run nextDist prevDist maxGap (pg_primes erat) cut enough_fuel it os = Done (it', rs).
Proof. exact iterator_total_pg. Qed.
Print Assumptions C01_every_call_returns.

(** the same with the model kernel plugged in (segment geometry, addSievingPrime, EratSmall cross-off over the
    source's step table, segment loop, sieving primes produced by the kernel itself; Properties_C04): no hypothesis
    about the sieve is left and no specification function occurs inside the model *)
From PS Require Import Model.CrossOff Proofs.KernelInstP.
Theorem C01_next_calls_model_kernel : forall l1 maxKB nextDist prevDist maxGap cut,
  16 <= maxKB -> maxKB <= 8192 -> cut_spec cut ->
  forall fuel s h k it' rs,
    s <= MAX64 ->
    run nextDist prevDist maxGap (pg_primes (erat_self l1 maxKB)) cut fuel (fresh_iter s h) (repeat Next k) = Done (it', rs) ->
    let P := primes_between s MAX64 in
    rs = map Val (firstn k P) ++ repeat Err (k - length P).
Proof. exact next_calls_model. Qed.
Print Assumptions C01_next_calls_model_kernel.

(** C01 - Forward iteration yields exactly the primes >= start, in order. *)
From Coq Require Import NArith List.
From PS Require Import Spec.Primes Spec.Cursor Model.Iterator Model.PrimeGen Proofs.IteratorP Proofs.CursorP Proofs.PrimeGenP Proofs.IteratorCor.
Import ListNotations.
Local Open Scope N_scope.

(** k calls of next_prime on an iterator positioned at s (any stop_hint h, any
    heuristics, any block layout) return the first k primes >= s that are
    < 2^64, ascending, and afterwards an error on every call.  The generator is the
    PrimeGenerator model: cached-prime tables (proved from the source tables)
    plus the sieve proper above 720, whose exactness [erat_spec] is the
    visible hypothesis of this theorem (kernel theorem, see DESIGN 2.2). *)
Theorem C01_next_calls_spec :
  forall nextDist prevDist maxGap erat cut, erat_spec erat -> cut_spec cut ->
  forall fuel s h k it' rs,
    s <= MAX64 ->
    run nextDist prevDist maxGap (pg_primes erat) cut fuel (fresh_iter s h) (repeat Next k) = Done (it', rs) ->
    let P := primes_between s MAX64 in
    rs = map Val (firstn k P) ++ repeat Err (k - length P).
Proof. exact next_calls_spec_pg. Qed.
Print Assumptions C01_next_calls_spec.

Theorem C01_every_call_returns :
  forall nextDist prevDist maxGap erat cut, erat_spec erat -> cut_spec cut ->
  forall os it c, R it c -> Forall op_ok os ->
    exists it' rs, run nextDist prevDist maxGap (pg_primes erat) cut enough_fuel it os = Done (it', rs).
Proof. exact iterator_total_pg. Qed.
Print Assumptions C01_every_call_returns.

(** the same with the model kernel plugged in (segment geometry, addSievingPrime, EratSmall cross-off over the
    source's step table, segment loop, sieving primes produced by the kernel itself; Properties_C04): no hypothesis
    about the sieve is left and no specification function occurs inside the model *)
From PS Require Import Model.CrossOff Proofs.KernelInstP.
Theorem C01_next_calls_model_kernel : forall l1 maxKB nextDist prevDist maxGap cut,
  16 <= maxKB -> maxKB <= 8192 -> cut_spec cut ->
  forall fuel s h k it' rs,
    s <= MAX64 ->
    run nextDist prevDist maxGap (pg_primes (erat_self l1 maxKB)) cut fuel (fresh_iter s h) (repeat Next k) = Done (it', rs) ->
    let P := primes_between s MAX64 in
    rs = map Val (firstn k P) ++ repeat Err (k - length P).
Proof. exact next_calls_model. Qed.
Print Assumptions C01_next_calls_model_kernel.

(** bit decoding (Erat::nextPrime and the loop "for (; bits != 0; bits &= bits - 1)" over a 64-bit word of the sieve
    array): both variants of nextPrime - count-trailing-zeros with bitValues[] and the De Bruijn hash with
    bruijnBitValues[] (tables and constant from the source) - return low + bitValues[i] for a word whose lowest set
    bit is i, and the loop yields, in ascending order, low + bitValues[i] for exactly the set bits i;
    bitValues[i] = 30*(i/8) + bv[i mod 8] *)
From PS Require Import Gen.Tables Model.Count Model.Decode Proofs.TablesP Proofs.DecodeP.
Theorem C01_bitValues_ok : forallb (fun i => tbl bitValues i =? 30 * (i / 8) + nth (N.to_nat (i mod 8)) bv 0) (Nseq 64) = true.
Proof. exact bitValues_ok. Qed.
Print Assumptions C01_bitValues_ok.
Theorem C01_nextPrime_variants_agree : forall a i low, lowest a i -> (i < 64)%nat ->
  nextPrime_ctz a low = low + tbl bitValues (N.of_nat i) /\ nextPrime_bruijn a low = low + tbl bitValues (N.of_nat i).
Proof. exact nextPrime_variants_agree. Qed.
Print Assumptions C01_nextPrime_variants_agree.
Theorem C01_decode_word_spec : forall next, (next = nextPrime_ctz \/ next = nextPrime_bruijn) -> forall fuel a low,
  a < W64 -> (length (set_bits a) < fuel)%nat ->
  decode_word fuel next a low = map (fun i => low + tbl bitValues (N.of_nat i)) (set_bits a).
Proof. exact decode_word_spec. Qed.
Print Assumptions C01_decode_word_spec.

(** ... and with the three-algorithm kernel (EratSmall / EratMedium's bucket lists / EratBig's bucket machine dispatched by the
    thresholds of initAlgorithms, sieving primes from an inner kernel fed by the tiny sieve as SievingPrimes does; Properties_C04) *)
From PS Require Import Model.Erat3Self Proofs.Erat3SelfP.
Theorem C01_next_calls_model_kernel3 : forall l1 maxKB nextDist prevDist maxGap cut,
  16 <= maxKB -> maxKB <= 8192 -> cut_spec cut ->
  forall fuel s h k it' rs,
    s <= MAX64 ->
    run nextDist prevDist maxGap (pg_primes (erat3_self l1 maxKB)) cut fuel (fresh_iter s h) (repeat Next k) = Done (it', rs) ->
    let P := primes_between s MAX64 in
    rs = map Val (firstn k P) ++ repeat Err (k - length P).
Proof. exact next_calls_model3. Qed.
Print Assumptions C01_next_calls_model_kernel3.

(** C02 - Backward iteration yields exactly the primes <= start, then 0. *)
From Coq Require Import NArith List.
From PS Require Import Spec.Primes Spec.Cursor Model.Iterator Model.PrimeGen Proofs.IteratorP Proofs.CursorP Proofs.PrimeGenP Proofs.IteratorCor.
Import ListNotations.
Local Open Scope N_scope.

(** k calls of prev_prime on an iterator positioned at s return the primes
    <= s in descending order, each once, and then 0 on every further call. *)
Theorem C02_prev_calls_spec :
  forall nextDist prevDist maxGap erat cut, erat_spec erat -> cut_spec cut ->
  forall fuel s h k it' rs,
    s <= MAX64 ->
    run nextDist prevDist maxGap (pg_primes erat) cut fuel (fresh_iter s h) (repeat Prev k) = Done (it', rs) ->
    let P := rev (primes_between 0 s) in
    rs = map Val (firstn k P) ++ repeat (Val 0) (k - length P).
Proof. exact prev_calls_spec_pg. Qed.
Print Assumptions C02_prev_calls_spec.

Theorem C02_every_call_returns :
  forall nextDist prevDist maxGap erat cut, erat_spec erat -> cut_spec cut ->
  forall os it c, R it c -> Forall op_ok os ->
    exists it' rs, run nextDist prevDist maxGap (pg_primes erat) cut enough_fuel it os = Done (it', rs).
Proof. exact iterator_total_pg. Qed.
Print Assumptions C02_every_call_returns.

(** the same with the model kernel plugged in: no hypothesis about the sieve is left *)
From PS Require Import Model.CrossOff Proofs.KernelInstP.
Theorem C02_prev_calls_model_kernel : forall l1 maxKB nextDist prevDist maxGap cut,
  16 <= maxKB -> maxKB <= 8192 -> cut_spec cut ->
  forall fuel s h k it' rs,
    s <= MAX64 ->
    run nextDist prevDist maxGap (pg_primes (erat_self l1 maxKB)) cut fuel (fresh_iter s h) (repeat Prev k) = Done (it', rs) ->
    let P := rev (primes_between 0 s) in
    rs = map Val (firstn k P) ++ repeat (Val 0) (k - length P).
Proof. exact prev_calls_model. Qed.
Print Assumptions C02_prev_calls_model_kernel.

(** ... and with the three-algorithm kernel (Properties_C04: C04_erat3_self_spec) *)
From PS Require Import Model.Erat3Self Proofs.Erat3SelfP.
Theorem C02_prev_calls_model_kernel3 : forall l1 maxKB nextDist prevDist maxGap cut,
  16 <= maxKB -> maxKB <= 8192 -> cut_spec cut ->
  forall fuel s h k it' rs,
    s <= MAX64 ->
    run nextDist prevDist maxGap (pg_primes (erat3_self l1 maxKB)) cut fuel (fresh_iter s h) (repeat Prev k) = Done (it', rs) ->
    let P := rev (primes_between 0 s) in
    rs = map Val (firstn k P) ++ repeat (Val 0) (k - length P).
Proof. exact prev_calls_model3. Qed.
Print Assumptions C02_prev_calls_model_kernel3.

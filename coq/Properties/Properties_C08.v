(** C08 - results are independent of sieve size, threads, CPU dispatch and cache topology. *)
From Coq Require Import NArith List Bool.
From PS Require Import Spec.Primes Gen.Tables Model.Pmath Model.Config Proofs.ConfigP Proofs.IteratorCor Model.Iterator Spec.Cursor Proofs.CursorP.
Import ListNotations.
Local Open Scope N_scope.

(** out-of-range settings are clamped *)
Theorem C08_set_sieve_size_clamped : forall s, 16 <= set_sieve_size s /\ set_sieve_size s <= 8192.
Proof. exact set_sieve_size_range. Qed.
Print Assumptions C08_set_sieve_size_clamped.
Theorem C08_set_num_threads_clamped : forall maxThreads t, 1 <= maxThreads ->
  1 <= set_num_threads maxThreads t /\ set_num_threads maxThreads t <= maxThreads.
Proof. exact set_num_threads_range. Qed.
Print Assumptions C08_set_num_threads_clamped.

(** for EVERY cache description the OS may report (zero, huge, inconsistent, missing) the sieve size used is in [16, 8192] KiB *)
Theorem C08_get_sieve_size_clamped : forall user c,
  (user = 0 \/ (16 <= user /\ user <= 8192)) -> 16 <= get_sieve_size user c /\ get_sieve_size user c <= 8192.
Proof. exact get_sieve_size_range. Qed.
Print Assumptions C08_get_sieve_size_clamped.

(** every reachable configuration is admissible for the kernel: for every L1 size, every sieve-size setting in
    16..8192 KiB (powers of two or not) and every interval, Erat::initAlgorithms yields a sieve size that is a
    multiple of 8 in [8 B, 8 MiB], a power of two >= 16 KiB whenever EratBig is used, ordered thresholds
    maxEratSmall <= maxEratMedium <= sqrt(stop), and a first segment base = 0 (mod 30) with start in its first byte *)
Theorem C08_init_admissible : forall l1 maxKB start stop,
  16 <= maxKB -> maxKB <= 8192 -> 7 <= start -> start <= stop -> stop <= MAX64 ->
  let a := initAlgorithms l1 maxKB start stop in
  a_sieveSize a mod 8 = 0 /\ 8 <= a_sieveSize a /\ a_sieveSize a <= 8192 * 1024 /\
  a_maxSmall a <= a_maxMedium a /\ a_maxMedium a <= N.sqrt stop /\
  (a_bigUsed a = true -> isPow2 (a_sieveSize a) = true /\ 16384 <= a_sieveSize a) /\
  a_segLow a mod 30 = 0 /\ a_segLow a + 7 <= start /\ start <= a_segLow a + 36 /\
  a_segHigh a <= stop /\ a_segHigh a = N.min (a_segLow a + 30 * a_sieveSize a + 6) stop.
Proof. exact initAlgorithms_admissible. Qed.
Print Assumptions C08_init_admissible.

(** iterator results do not depend on the heuristics, the block layout, the hint or the kernel implementation,
    as long as the kernel meets its specification (whatever sieve size / dispatch path computes it) *)
Theorem C08_config_irrelevant_iterator :
  forall nextDist prevDist maxGap kernel cut nextDist' prevDist' maxGap' kernel' cut' fuel fuel' s h h' os os' it1 rs it2 rs',
  kernel_spec kernel -> cut_spec cut -> kernel_spec kernel' -> cut_spec cut' ->
  s <= MAX64 -> Forall Proofs.IteratorP.op_ok os -> Forall Proofs.IteratorP.op_ok os' ->
  map erase_hint os = map erase_hint os' ->
  run nextDist prevDist maxGap kernel cut fuel (fresh_iter s h) os = Done (it1, rs) ->
  run nextDist' prevDist' maxGap' kernel' cut' fuel' (fresh_iter s h') os' = Done (it2, rs') ->
  rs = rs'.
Proof. exact hint_irrelevant. Qed.
Print Assumptions C08_config_irrelevant_iterator.

(** the model kernel's result does not depend on the configuration: any two L1 sizes and sieve-size settings give
    the same list for the same interval (both equal primes_between; Properties_C04: C04_erat_self_spec) *)
From PS Require Import Model.CrossOff Proofs.KernelListP.
Theorem C08_model_kernel_config_independent : forall l1 maxKB l1' maxKB',
  16 <= maxKB -> maxKB <= 8192 -> 16 <= maxKB' -> maxKB' <= 8192 ->
  forall s e, 7 <= s -> s <= e -> e <= MAX64 -> erat_self l1 maxKB s e = erat_self l1' maxKB' s e.
Proof.
  exact (fun l1 maxKB l1' maxKB' K1 K2 K1' K2' s e S1 S2 S3 =>
           eq_trans (erat_self_spec l1 maxKB K1 K2 s e S1 S2 S3) (eq_sym (erat_self_spec l1' maxKB' K1' K2' s e S1 S2 S3))).
Qed.
Print Assumptions C08_model_kernel_config_independent.

(** C10 - exact up to 2^64-1; requests beyond fail instead of wrapping. *)
From Coq Require Import NArith List Bool.
From PS Require Import Spec.Primes Spec.Cursor Gen.Tables Model.Pmath Model.Wheel Model.Tiling Model.Iterator
     Proofs.PmathP Proofs.WheelP Proofs.TilingP Proofs.StoreP Proofs.TopP Proofs.IteratorP.
Import ListNotations.
Local Open Scope N_scope.

(** the saturating helpers never produce a wrapped value *)
Theorem C10_checkedAdd_saturates : forall x y, x <= MAX64 -> checkedAdd x y = N.min (x + y) MAX64.
Proof. exact checkedAdd_min. Qed.
Print Assumptions C10_checkedAdd_saturates.
Theorem C10_checkedSub_saturates : forall x y, checkedSub x y = x - y.
Proof. exact checkedSub_sub. Qed.
Print Assumptions C10_checkedSub_saturates.

(** Wheel::addSievingPrime: for every sieving prime < 2^32 the modular product prime * quotient is either
    exact or rejected by the "multiple < segmentLow" guard, and multiple + nextMultiple never exceeds stop:
    a stored multiple is the true product, inside (segmentLow + 6, stop] *)
Theorem C10_addSievingPrime_no_wrap : forall modulo init offsets bound stop prime segmentLow mi wi,
  forallb (fun e => fst e <=? bound) init = true -> bound <= 10 ->
  1 <= prime -> prime < 2 ^ 32 -> stop <= MAX64 -> segmentLow + 6 <= MAX64 ->
  addSievingPrime modulo init offsets stop prime segmentLow = Some (mi, wi) ->
  let quotient := N.max prime ((segmentLow + 6) / prime + 1) in
  let f := fst (nth (N.to_nat (quotient mod modulo)) init (0, 0)) in
  let m := prime * (quotient + f) in
  segmentLow + 6 < m /\ m <= stop /\ mi = (m - (segmentLow + 6)) / 30 /\ prime <= quotient.
Proof. exact addSievingPrime_no_wrap. Qed.
Print Assumptions C10_addSievingPrime_no_wrap.
Theorem C10_wheel_factors_small :
  forallb (fun e => fst e <=? 6) wheel30Init = true /\ forallb (fun e => fst e <=? 10) wheel210Init = true /\
  wheel30_maxfactor = 6 /\ wheel210_maxfactor = 10 /\ wheel30_modulo = 30 /\ wheel210_modulo = 210.
Proof. exact init_factor_bounds. Qed.
Print Assumptions C10_wheel_factors_small.

(** the iterator's next chunk never restarts low: its bounds stay ordered and below 2^64 *)
Theorem C10_updateNext_bounds : forall nextDist maxGap hint d,
  d_stop d <= MAX64 ->
  let '(s, stop, dist) := updateNext nextDist maxGap hint d in
  s <= stop /\ stop <= MAX64 /\ s = N.min (if d_incl d then d_stop d else d_stop d + 1) MAX64.
Proof. exact updateNext_bounds. Qed.
Print Assumptions C10_updateNext_bounds.

(** the thread pieces end exactly at stop, whatever the thread distance *)
Theorem C10_align_never_exceeds_stop : forall stop n, alignN stop n <= stop.
Proof. exact alignN_le. Qed.
Print Assumptions C10_align_never_exceeds_stop.

(** what the specification yields at the top: values are primes below 2^64 at or after the cursor; once
    18446744073709551557 has been returned (largest_prime_hyp) only an error can follow *)
Theorem C10_next_never_wraps : forall lo h c' v, cursor_step (lo, h) Next c' (Val v) -> lo <= v /\ v < U64 /\ prime v.
Proof. exact next_never_wraps. Qed.
Print Assumptions C10_next_never_wraps.
Theorem C10_next_after_largest : forall h c' r,
  largest_prime_hyp -> cursor_step (MAXPRIME64 + 1, h) Next c' r -> r = Err /\ c' = (MAXPRIME64 + 1, h).
Proof. exact next_after_largest. Qed.
Print Assumptions C10_next_after_largest.

(** [largest_prime_hyp] reduced: the 58 numbers between 18446744073709551557 and 2^64 are composite (a factor of each
    is checked by computation), so only the primality of 18446744073709551557 itself remains a literature fact *)
From PS Require Import Proofs.TopGapP Proofs.StoreP.
Theorem C10_no_prime_above_maxprime : forall q, MAXPRIME64 < q -> q <= MAX64 -> ~ prime q.
Proof. exact no_prime_above_maxprime. Qed.
Print Assumptions C10_no_prime_above_maxprime.
Theorem C10_largest_prime_reduced : prime MAXPRIME64 -> largest_prime_hyp.
Proof. exact largest_prime_reduced. Qed.
Print Assumptions C10_largest_prime_reduced.

(** the largest prime below 2^64: 18446744073709551557 is prime - a Pocklington certificate chain
    (18446744073709551557 - 1 = 2^2 * 11 * 137 * 547 * 5594472617641, 5594472617641 - 1 = 2^3 * 3 * 5 * 1427 * 2131 * 15331)
    checked in Coq (Proofs/PockCore.v: Pocklington's criterion proved with mathcomp; PockBridge.v: fast modular powers on Z;
    PockCert.v: the certificates) - and no prime lies above it below 2^64: [largest_prime_hyp] is a theorem *)
From PS Require Import Proofs.PockCert Proofs.TopFinalP.
Theorem C10_maxprime64_is_prime : prime MAXPRIME64.
Proof. exact prime_MAXPRIME64. Qed.
Print Assumptions C10_maxprime64_is_prime.
Theorem C10_largest_prime_proved : largest_prime_hyp.
Proof. exact largest_prime_proved. Qed.
Print Assumptions C10_largest_prime_proved.
Theorem C10_next_after_largest_proved : forall h c' r,
  cursor_step (MAXPRIME64 + 1, h) Next c' r -> r = Err /\ c' = (MAXPRIME64 + 1, h).
Proof. exact next_after_largest_proved. Qed.
Print Assumptions C10_next_after_largest_proved.

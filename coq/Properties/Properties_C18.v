(** C18 (partial): the approximations stay within sqrt of the truth - proved for the finite domain
    2 <= x <= 65536 on the real-valued Gram series with the source's zeta table; clamp for every input.
    The full statement (every x < 2^64) is not a theorem anyone can state a proof of here: for large x it
    rests on unproved analytic number theory; see DESIGN.md section C18. *)
From Coq Require Import Reals ZArith NArith.
From PS Require Import Spec.Primes Model.Approx Proofs.ApproxP Gen.ApproxAll.
Local Open Scope R_scope.

(** |R(x) - pi(x)| < sqrt(x) - 1/100 for every integer x of the finite domain *)
Theorem C18_R_bound_partial : forall x : N, (2 <= x <= 65536)%N ->
  Rabs (gram (NR x) - piR x) < sqrt (NR x) - margin.
Proof. exact (fun x H => proj1 (approx_bounds x H)). Qed.
Print Assumptions C18_R_bound_partial.

(** every t >= 1 with R(t) = pi(x) - the value R^-1(n) the Newton iteration approximates, n = pi(x),
    in particular x = p_n - satisfies |t - x| < sqrt(x) - 1/100 *)
Theorem C18_Rinv_bound_partial : forall x : N, (2 <= x <= 65536)%N ->
  forall t, 1 <= t -> gram t = piR x -> Rabs (t - NR x) < sqrt (NR x) - margin.
Proof. exact (fun x H => proj2 (approx_bounds x H)). Qed.
Print Assumptions C18_Rinv_bound_partial.

(** the series is strictly increasing on [1, oo): R^-1 is well defined and Newton's target unique *)
Theorem C18_series_increasing : forall t1 t2, 1 <= t1 -> t1 < t2 -> gram t1 < gram t2.
Proof. exact (fun t1 t2 H1 H2 => eq_ind_r (fun a => a < gram t2) (eq_ind_r (fun b => gramH t1 < b) (gramH_strict t1 t2 H1 H2) (gram_horner t2)) (gram_horner t1)). Qed.
Print Assumptions C18_series_increasing.

(** nthPrimeApprox saturates at 2^64-1 and never wraps, for every result of R^-1 *)
Theorem C18_clamp_saturates : forall fl : Z, (0 <= fl)%Z ->
  (0 <= clamp64 fl <= Z.of_N MAX64)%Z /\
  (fl <= Z.of_N MAX64 -> clamp64 fl = fl)%Z /\ (Z.of_N MAX64 < fl -> clamp64 fl = Z.of_N MAX64)%Z.
Proof. exact clamp64_spec. Qed.
Print Assumptions C18_clamp_saturates.

Theorem C18_clamp_monotone : forall f1 f2 : Z, (f1 <= f2)%Z -> (clamp64 f1 <= clamp64 f2)%Z.
Proof. exact clamp64_mono. Qed.
Print Assumptions C18_clamp_monotone.

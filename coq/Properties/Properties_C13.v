(** C13 - a failed allocation is reported, never turned into a crash or a wrong answer. *)
From Coq Require Import NArith List Bool.
From PS Require Import Spec.Primes Spec.Cursor Model.Iterator Model.Fault Model.CApi Proofs.IteratorP Proofs.IteratorCor Proofs.FaultP Proofs.CApiP.
Import ListNotations.
Local Open Scope N_scope.

(** iterator (C++): for every history, every pattern of allocation failures (a failure at any allocation
    point of a refill), every heuristic and block layout: the outputs form a run of the cursor
    specification in which each faulted call reports an error and leaves the cursor unchanged - continued
    use never yields a wrong prime *)
Theorem C13_alloc_fault_safe :
  forall nextDist prevDist maxGap kernel cut, kernel_spec kernel -> cut_spec cut ->
  forall fuel os it c it' rs,
    R it c -> Forall (fun p => op_ok (fst p)) os ->
    run_f nextDist prevDist maxGap kernel cut fuel it os = Done (it', rs) ->
    cursor_run_f c (map fst os) rs /\ exists c', R it' c'.
Proof. exact alloc_fault_safe. Qed.
Print Assumptions C13_alloc_fault_safe.

(** the values delivered in a run with faults are those of a fault-free specification run *)
Theorem C13_values_unaffected : forall os c rs,
  cursor_run_f c os rs ->
  exists os' rs', cursor_run c os' rs' /\
    filter (fun r => match r with Val _ => true | _ => false end) rs =
    filter (fun r => match r with Val _ => true | _ => false end) rs'.
Proof. exact cursor_run_f_erase. Qed.
Print Assumptions C13_values_unaffected.

(** iterator (C): the error state entered on any exception - also when not even the IteratorData could be
    allocated - is absorbing for primesieve_next_prime *)
Theorem C13_c_error_state_nomem : forall nextDist maxGap kernel cut,
  (forall a b, a <= b -> b <= MAX64 -> kernel a b = primes_between a b) ->
  (forall l, concat (cut l) = l /\ Forall nonempty (cut l)) ->
  forall fuel, (1 <= fuel)%nat ->
  c_next_prime nextDist maxGap kernel cut fuel {| ci := error_iter_nomem; ci_error := true |} =
    Done ({| ci := error_iter; ci_error := true |}, PRIMESIEVE_ERROR).
Proof. exact error_state_step_nomem. Qed.
Print Assumptions C13_c_error_state_nomem.
